package props

import (
	"fmt"

	"github.com/philpearl/plenc"

	"verif/mc"
	"verif/ref"
)

// Build-order exploration (E2): a Plenc instance caches every codec it builds under a
// (type, tag) key, so what a type gets may depend on which types were first used before it.
// Operation = first use of one pool type (CodecForType); histories = every ordered pair of
// pool types (thorough: also every ordered triple over the reduced pool) on a fresh instance;
// after each history every type in it is probed and must behave exactly as on an instance
// of its own. The pool is the interaction family: structs in which one derived type occurs
// with and without a tag option, so that a codec cached under the wrong key is handed to a
// later type.
func buildOrderPool() []*ref.T {
	var pool []*ref.T
	for _, it := range ref.Interaction() {
		pool = append(pool, it.T)
	}
	return pool
}

// buildOrder runs the exploration; probe returns a violation signature suffix and detail, or "".
func buildOrder(c *mc.Ctx, unit *int, prop string, probe func(p *plenc.Plenc, t *ref.T) (string, string)) {
	pool := buildOrderPool()
	cfg := ref.Cfg{}
	for ai, a := range pool {
		*unit++
		if !c.Owns(*unit) {
			continue
		}
		if c.Expired() {
			c.Note(fmt.Sprintf("build-order exploration stopped before first type #%d of %d", ai, len(pool)))
			return
		}
		if !c.Begin(fmt.Sprintf(`{"set":"build-order","first":%q,"second":"every pool type (%d)"}`, a, len(pool))) {
			continue
		}
		c.AddEvals(-1)
		c.Dim("build-order")
		for _, b := range pool {
			hists := [][]*ref.T{{a, b}}
			if c.Tier == "thorough" {
				for k := ai % 7; k < len(pool); k += 7 { // reduced pool for the third position
					hists = append(hists, []*ref.T{a, b, pool[k]})
				}
			}
			for _, h := range hists {
				c.AddEvals(1)
				c.Count("states", 1)
				c.Count("transitions", int64(len(h)))
				c.NonTrivial()
				pre := fmt.Sprintf("build-order|%s|", b)
				c.Guard(pre, func() {
					p := NewPlenc(cfg)
					for _, t := range h {
						if _, err := p.CodecForType(t.Reflect()); err != nil {
							c.Violation(pre+"codec-error-after-history", fmt.Sprintf("history %v: %v", h, err))
							return
						}
						c.Ops(1)
					}
					for i := len(h) - 1; i >= 0; i-- {
						if sig, detail := probe(p, h[i]); sig != "" {
							c.Violation(pre+sig, fmt.Sprintf("%s: after first uses of %v on one instance, %s: %s", prop, h, h[i], detail))
							return
						}
						c.Ops(2)
					}
				})
			}
		}
		c.Outcome("build-order-done")
	}
}

// probeValues picks a few rich values of t.
func probeValues(t *ref.T) []ref.V {
	var vals []ref.V
	for _, v := range ref.Values(t, 1) {
		if !ref.NestedAbsent(t, v) { // C01's ledgered nested-presence findings are not this exploration's subject
			vals = append(vals, v)
		}
	}
	if len(vals) <= 3 {
		return vals
	}
	return []ref.V{vals[len(vals)-1], vals[len(vals)/2], vals[1]}
}

// bytesProbe: Marshal output must be the reference encoding and round-trip (C01, C02).
func bytesProbe(p *plenc.Plenc, t *ref.T) (string, string) {
	cfg := ref.Cfg{}
	for _, v := range probeValues(t) {
		data, err := p.Marshal(nil, ref.ToReflect(t, v).Addr().Interface())
		if err != nil {
			return "marshal-error", err.Error()
		}
		if !ref.EncTop(cfg, t, v).MatchExact(data) {
			return "encoding-depends-on-build-order", fmt.Sprintf("value %s encodes as %s, reference %s", ref.Str(t, v), hx(data), hx(ref.EncTop(cfg, t, v).Bytes()))
		}
		out := fresh(t)
		if err := p.Unmarshal(data, out.Interface()); err != nil {
			return "unmarshal-error", err.Error() + " data=" + hx(data)
		}
		if path, detail, differ := ref.Diff(t, ref.Expect(cfg, t, "", v, false), ref.FromReflect(t, out.Elem())); differ {
			return "round-trip-depends-on-build-order:" + path, detail
		}
	}
	return "", ""
}

// descProbe: the Descriptor must be the one of the definition (C14).
func descProbe(p *plenc.Plenc, t *ref.T) (string, string) {
	codec, err := p.CodecForType(t.Reflect())
	if err != nil {
		return "codec-error", err.Error()
	}
	if s := ref.DiffD(ref.Descriptor(ref.Cfg{}, t, ""), fromDesc(codec.Descriptor()), ""); s != "" {
		return "descriptor-depends-on-build-order:" + mc.PanicClass(s), s
	}
	return "", ""
}
