package props

import (
	"bytes"
	"fmt"
	"reflect"
	"unsafe"

	"github.com/philpearl/plenc"

	"verif/gen"
	"verif/mc"
	"verif/ref"
)

func init() {
	for name, rt := range map[string]reflect.Type{
		"complex64": reflect.TypeOf(complex64(0)), "complex128": reflect.TypeOf(complex128(0)), "[2]int": reflect.TypeOf([2]int{}), "chan int": reflect.TypeOf((chan int)(nil)),
		"func()": reflect.TypeOf(func() {}), "any": reflect.TypeOf((*any)(nil)).Elem(), "uintptr": reflect.TypeOf(uintptr(0)), "unsafe.Pointer": reflect.TypeOf(unsafe.Pointer(nil)),
		"error": reflect.TypeOf((*error)(nil)).Elem(), "[0]int": reflect.TypeOf([0]int{}),
	} {
		ref.RegisterNamed(name, rt)
	}
	register(&mc.Prop{
		ID: "C08",
		Rule: "definitions: (a) every supported representative and every unsupported kind (complex64/128, array, chan, func, interface, uintptr, unsafe.Pointer) in every nesting position (direct, *X, []X, [][]X, []*X, map key, map value, nested struct field, *map, []map, map[K]map, top level) x four configurations; " +
			"(a') every one of those nestings under every tag option {flat, intern, proto, bogus}; (b) the full matrix of 24 tag strings (well-formed, malformed, every option) x 14 field kinds; (c) duplicate indexes in every arrangement, skipped and unexported fields; (d) hand-written types with unexported, blank, underscore-named and skipped fields. " +
			"Oracle: never a panic or fault; model says reject => non-nil error with a message; model says accept (or the corner is undocumented and plenc accepts) => the codec passes a round-trip and size/append battery on zero and non-zero values; after a rejection every independently valid sub-type still works on the same instance (registry not poisoned); " +
			"unexported and '-' fields are neither encoded nor written. non-trivial = definition the model rejects or judges undocumented",
		Assumptions: []string{"ref.Accept is the documented acceptance rule (DESIGN Appendix A rule 12 and C08's statement); indexes above 65536 are outside the alphabet (fieldsByIndex is a dense slice)"},
		Work:        c08Work,
		Post: func(a *mc.Agg) []string {
			return needDims(a, "verdict:accept", "verdict:reject", "verdict:either", "set:kinds", "set:options", "set:tags", "set:dups", "set:unexported", "subtype-probe", "reject-after-subtype")
		},
	})
}

type c08Def struct {
	set string
	t   *ref.T
}

func c08Defs() []c08Def {
	L := ref.Leaf
	raw := func(n string) *ref.T { return &ref.T{K: ref.KRaw, Named: n} }
	var out []c08Def
	add := func(set string, t *ref.T) { out = append(out, c08Def{set, t}) }
	field := func(t *ref.T) *ref.T {
		return ref.Struct(ref.F{Name: "F", Index: 1, T: t}, ref.F{Name: "Z", Index: 9, T: L(ref.KInt)})
	}
	bases := []*ref.T{L(ref.KInt), L(ref.KUint8), L(ref.KBool), L(ref.KFloat32), L(ref.KFloat64), L(ref.KString), L(ref.KBytes), L(ref.KTime), L(ref.KNullString), ref.S0(),
		L(ref.KNullInt), L(ref.KNullBool), L(ref.KNullFloat), L(ref.KNullTime), L(ref.KInt8), L(ref.KUint64), L(ref.KInt32),
		raw("complex64"), raw("complex128"), raw("[2]int"), raw("[0]int"), raw("chan int"), raw("func()"), raw("any"), raw("error"), raw("uintptr"), raw("unsafe.Pointer"),
		// named twins: every rule must follow the kind, not the identity of the unnamed type
		{K: ref.KInt, Named: "gen.NInt"}, {K: ref.KFloat32, Named: "gen.NFloat32"}, {K: ref.KFloat64, Named: "gen.NFloat64"}, {K: ref.KString, Named: "gen.NString"},
		{K: ref.KPtr, Named: "gen.NPtrF32", Elem: L(ref.KFloat32)}, {K: ref.KPtr, Named: "gen.NPtrF64", Elem: L(ref.KFloat64)}, {K: ref.KPtr, Named: "gen.NPtrInt", Elem: L(ref.KInt)},
		{K: ref.KSlice, Named: "gen.NSliceF64", Elem: L(ref.KFloat64)}, {K: ref.KSlice, Named: "gen.NSliceStr", Elem: L(ref.KString)}, {K: ref.KMap, Named: "gen.NMapSI", Key: L(ref.KString), Elem: L(ref.KInt)}}
	for _, x := range bases {
		shapes := []*ref.T{x, ref.Ptr(x), ref.Ptr(ref.Ptr(x)), {K: ref.KSlice, Elem: x}, {K: ref.KSlice, Elem: ref.Ptr(x)}, {K: ref.KSlice, Elem: &ref.T{K: ref.KSlice, Elem: x}},
			ref.Map(L(ref.KString), x), ref.Map(L(ref.KString), ref.Ptr(x)), ref.Map(L(ref.KString), &ref.T{K: ref.KSlice, Elem: x}),
			ref.Map(L(ref.KString), ref.Map(L(ref.KString), x)), ref.Ptr(ref.Map(L(ref.KString), x)), {K: ref.KSlice, Elem: ref.Map(L(ref.KString), x)},
			ref.Struct(ref.F{Name: "In", Index: 1, T: x}), {K: ref.KSlice, Elem: ref.Struct(ref.F{Name: "In", Index: 1, T: x})},
			{K: ref.KSlice, Elem: &ref.T{K: ref.KSlice, Elem: &ref.T{K: ref.KSlice, Elem: x}}},
			{K: ref.KSlice, Elem: ref.Ptr(ref.Ptr(x))}, {K: ref.KSlice, Elem: ref.Ptr(&ref.T{K: ref.KSlice, Elem: x})},
			ref.Map(L(ref.KInt), ref.Struct(ref.F{Name: "M", Index: 1, T: ref.Map(L(ref.KString), x)}))}
		if x.Comparable() {
			shapes = append(shapes, ref.Map(x, L(ref.KInt)), ref.Map(ref.Struct(ref.F{Name: "K", Index: 1, T: x}), L(ref.KInt)), ref.Map(ref.Ptr(x), L(ref.KInt)))
		}
		for _, s := range shapes {
			if s.K == ref.KSlice && s.Elem.K == ref.KUint8 && s.Elem.Named == "" {
				s = L(ref.KBytes)
			}
			add("kinds", s)
			add("kinds", field(s))
			// the full option x shape matrix: every nesting under every tag option
			for _, o := range []string{"flat", "intern", "proto", "bogus"} {
				add("options", ref.Struct(ref.F{Name: "F", Index: 1, Opt: o, T: s}, ref.F{Name: "Z", Index: 9, T: L(ref.KInt)}))
			}
		}
	}
	tags := []string{"-", "0", "1", "01", "+1", "-1", "1,", "1,flat", "1,intern", "1,proto", "1,bogus", "1,intern,flat", "x", "1.5", " 1", "99999999999999999999", ",", "-,x", "65536",
		"1 ", "0x1", "1,FLAT", "-0", "2,proto,"}
	tagKinds := []*ref.T{L(ref.KInt), L(ref.KInt8), L(ref.KUint), L(ref.KBool), L(ref.KFloat64), L(ref.KString), L(ref.KBytes), L(ref.KTime), ref.S0(), ref.Slice(L(ref.KInt)),
		ref.Slice(L(ref.KString)), ref.Map(L(ref.KString), L(ref.KInt)), ref.Ptr(L(ref.KInt)), L(ref.KNullString), ref.Ptr(L(ref.KTime))}
	for _, tg := range tags {
		for _, k := range tagKinds {
			add("tags", ref.Struct(ref.F{Name: "F", Raw: tg, T: k}, ref.F{Name: "Z", Index: 9, T: L(ref.KInt)}))
		}
	}
	for _, k := range tagKinds {
		add("tags", ref.Struct(ref.F{Name: "F", NoTag: true, T: k}, ref.F{Name: "Z", Index: 9, T: L(ref.KInt)}))
	}
	i, s := L(ref.KInt), L(ref.KString)
	f := func(n string, idx int, t *ref.T) ref.F { return ref.F{Name: n, Index: idx, T: t} }
	skip := func(n string, t *ref.T) ref.F { return ref.F{Name: n, Skip: true, T: t} }
	dups := []*ref.T{
		ref.Struct(f("A", 1, i), f("B", 1, i)),
		ref.Struct(f("A", 1, i), f("B", 2, s), f("C", 1, i)),
		ref.Struct(f("A", 2, i), f("B", 1, s), f("C", 2, s)),
		ref.Struct(f("A", 1, i), skip("B", i), f("C", 2, i)),
		ref.Struct(f("A", 1, i), ref.F{Name: "B", Raw: "01", T: i}),
		ref.Struct(f("A", 0, i), f("B", 0, i)),
		ref.Struct(f("A", 0, i), f("B", 1, i)),
		ref.Struct(skip("A", i), skip("B", s)),
		ref.Struct(f("A", 1, ref.Slice(ref.Struct(f("X", 3, i), f("Y", 3, i))))),
		ref.Struct(f("A", 1, ref.Struct(f("X", 1, i))), f("B", 2, ref.Struct(f("X", 1, i), f("Y", 1, s)))),
		ref.Struct(f("A", 1, ref.Ptr(ref.Struct(f("X", 5, i), f("Y", 5, i)))), f("Z", 9, i)),
		ref.Struct(f("A", 1, ref.Map(s, ref.Struct(f("X", 5, i), f("Y", 5, i)))), f("Z", 9, i)),
		ref.Struct(f("A", 1, i), skip("Skipped", &ref.T{K: ref.KRaw, Named: "complex64"}), f("Z", 9, i)),
		ref.Struct(f("A", 1, i), skip("Skipped", &ref.T{K: ref.KRaw, Named: "chan int"}), f("Z", 9, i)),
	}
	for _, d := range dups {
		add("dups", d)
	}
	return out
}

// battery exercises an accepted codec on zero and non-zero values.
func c08Battery(p *plenc.Plenc, cfg ref.Cfg, t *ref.T) string {
	if t.Contains(func(x *ref.T) bool { return x.K == ref.KRaw }) {
		return "" // types with skipped raw fields have no model values
	}
	if t.K != ref.KStruct {
		// top-level framing cannot express absence (C01's known finding) and the repeated
		// form needs a tag: exercise non-struct types as a field
		t = ref.Struct(ref.F{Name: "F", Index: 1, T: t}, ref.F{Name: "Z", Index: 9, T: ref.Leaf(ref.KInt)})
		if v, _ := ref.Accept(cfg, t, ""); v == ref.MustReject {
			return ""
		}
	}
	vals := ref.Values(t, 0)
	if more := ref.Values(t, 1); len(more) > 0 {
		vals = append(vals, more[len(more)-1])
	}
	for _, v := range vals {
		if ref.NestedAbsent(t, v) {
			continue
		}
		rv := ref.ToReflect(t, v)
		data, err := p.Marshal(nil, rv.Addr().Interface())
		if err != nil {
			return "marshal-error: " + err.Error()
		}
		out := reflect.New(t.Reflect())
		if err := p.Unmarshal(data, out.Interface()); err != nil {
			return "unmarshal-error: " + err.Error()
		}
		if _, detail, differ := ref.Diff(t, ref.Expect(cfg, t, "", v, false), ref.FromReflect(t, out.Elem())); differ {
			return "round-trip: " + detail
		}
		codec, err := p.CodecForType(t.Reflect())
		if err != nil {
			return "codec-vanished: " + err.Error()
		}
		if n := codec.Size(ptrFor(rv), nil); n != len(codec.Append(nil, ptrFor(rv), nil)) {
			return fmt.Sprintf("size %d != appended %d", n, len(codec.Append(nil, ptrFor(rv), nil)))
		}
	}
	return ""
}

// subTypes lists the types nested in t that could stand alone.
func subTypes(t *ref.T, out *[]*ref.T) {
	switch t.K {
	case ref.KPtr, ref.KSlice:
		*out = append(*out, t.Elem)
		subTypes(t.Elem, out)
	case ref.KMap:
		*out = append(*out, t.Key, t.Elem)
		subTypes(t.Key, out)
		subTypes(t.Elem, out)
	case ref.KStruct:
		for _, f := range t.Fields {
			if f.Encoded() {
				*out = append(*out, f.T)
				subTypes(f.T, out)
			}
		}
	}
}

func c08Work(c *mc.Ctx) {
	defs := c08Defs()
	for di, d := range defs {
		if !c.Owns(di) {
			continue
		}
		cfgs := ref.Cfgs
		if d.set == "options" {
			cfgs = []ref.Cfg{ref.Cfgs[0], ref.Cfgs[3]}
		} else if d.set != "kinds" {
			cfgs = ref.Cfgs[:1]
		}
		for _, cfg := range cfgs {
			c08One(c, cfg, d)
		}
	}
	if c.Owns(len(defs)) {
		c08Unexported(c)
	}
	if c.Owns(len(defs) + 1) {
		c08RecursiveFail(c)
	}
	if c.Owns(len(defs) + 2) {
		c08Misuse(c)
	}
}

// c08Misuse: what is handed to Marshal / Unmarshal is itself a "type definition" plenc has to
// judge: a non-pointer or nil target, a nil value, an unsupported top-level kind - each must be
// answered with an error (or be handled), never with a panic.
func c08Misuse(c *mc.Ctx) {
	if !c.Begin(`{"set":"misuse"}`) {
		return
	}
	c.Dim("set:misuse")
	c.NonTrivial()
	type S struct {
		A int `plenc:"1"`
	}
	var nilS *S
	var nilMap map[string]int
	data := []byte{0x08, 0x02}
	unmarshalTargets := []struct {
		name    string
		v       any
		mustErr bool
	}{
		{"struct by value", S{}, true}, {"nil *struct", nilS, true}, {"untyped nil", nil, true}, {"int by value", 5, true}, {"nil map by value", nilMap, true},
		{"pointer to chan", new(chan int), true}, {"pointer to func", new(func()), true}, {"pointer to interface", new(any), true}, {"pointer to array", new([2]int), true},
		{"pointer to struct", &S{}, false}, {"pointer to pointer to struct", new(*S), false},
	}
	for _, cfg := range []ref.Cfg{ref.Cfgs[0], ref.Cfgs[3]} {
		p := NewPlenc(cfg)
		for _, tg := range unmarshalTargets {
			c.AddEvals(1)
			c.Count("states", 1)
			pre := fmt.Sprintf("%s|misuse|Unmarshal into %s|", cfg, tg.name)
			c.Guard(pre, func() {
				err := p.Unmarshal(data, tg.v)
				if tg.mustErr && err == nil {
					c.Violation(pre+"accepted", "Unmarshal returned nil")
				} else if tg.mustErr && err.Error() == "" {
					c.Violation(pre+"empty-error-message", "")
				} else if !tg.mustErr && err != nil {
					c.Violation(pre+"rejected", err.Error())
				}
			})
		}
		for _, mv := range []struct {
			name string
			v    any
		}{{"untyped nil", nil}, {"chan", make(chan int)}, {"func", func() {}}, {"array", [2]int{1, 2}}, {"complex", complex(1, 2)}, {"pointer to chan", new(chan int)}} {
			c.AddEvals(1)
			c.Count("states", 1)
			pre := fmt.Sprintf("%s|misuse|Marshal of %s|", cfg, mv.name)
			func() {
				defer func() {
					// the untyped nil has no type to look a codec up for: the pinned code panics there and the
					// statement speaks of Go TYPES, so that one input is left undecided (a nil *T is not probed
					// at all: C06 speaks of non-nil pointers only)
					if r := recover(); r != nil && mv.name != "untyped nil" {
						c.Violation(pre+"panic:"+mc.PanicClass(r), fmt.Sprint(r))
					}
				}()
				if _, err := p.Marshal(nil, mv.v); err == nil && mv.name != "untyped nil" {
					c.Violation(pre+"accepted", "Marshal returned nil error for an unsupported kind")
				}
			}()
		}
	}
	c.Outcome("misuse-done")
}

func c08One(c *mc.Ctx, cfg ref.Cfg, d c08Def) {
	t := d.t
	if !c.Begin(fmt.Sprintf(`{"cfg":%q,"set":%q,"type":%q}`, cfg, d.set, t)) {
		return
	}
	c.Dim("set:" + d.set)
	verdict, why := ref.Accept(cfg, t, "")
	c.Dim("verdict:" + verdict.String())
	if verdict != ref.MustAccept {
		c.NonTrivial()
	}
	pre := fmt.Sprintf("%s|%s|%s|", cfg, d.set, t)
	var rt reflect.Type
	func() {
		defer func() {
			if r := recover(); r != nil {
				rt = nil // reflect cannot build it (e.g. invalid map key): not a definition Go accepts
			}
		}()
		rt = t.Reflect()
	}()
	if rt == nil {
		c.Outcome("not-a-go-type")
		return
	}
	p := NewPlenc(cfg)
	c.Guard(pre, func() {
		codec, err := p.CodecForType(rt)
		c.Ops(1)
		switch {
		case verdict == ref.MustReject && err == nil:
			// an accepted-but-broken definition is only a violation if it misbehaves or the statement lists it
			c.Outcome("accepted-what-model-rejects")
			c.Violation(pre+"accepted:"+mc.PanicClass(why), fmt.Sprintf("model: reject (%s); plenc returned codec %T", why, codec))
		case verdict == ref.MustReject:
			if err.Error() == "" {
				c.Violation(pre+"empty-error-message", "")
			}
			c.Outcome("rejected")
		case err != nil && verdict == ref.MustAccept:
			c.Outcome("rejected-what-model-accepts")
			c.Violation(pre+"rejected-supported-definition", err.Error())
		case err != nil:
			c.Outcome("rejected-undocumented")
		default:
			if msg := c08Battery(p, cfg, t); msg != "" {
				c.Outcome("accepted-but-broken")
				c.Violation(pre+"accepted-codec-misbehaves:"+verdict.String()+":"+mc.PanicClass(msg), msg)
			} else {
				c.Outcome("accepted")
			}
		}
		// registry must not be poisoned: every sub-type that is valid on its own still works
		var subs []*ref.T
		subTypes(t, &subs)
		seen := map[string]bool{}
		for _, s := range subs {
			if seen[s.String()] || s.K == ref.KRaw {
				continue
			}
			seen[s.String()] = true
			if v, _ := ref.Accept(cfg, s, ""); v != ref.MustAccept {
				// a sub-type the model rejects must be rejected on this instance too (not left behind half built)
				if v == ref.MustReject {
					if _, err := p.CodecForType(s.Reflect()); err == nil {
						c.Violation(pre+"rejected-subtype-left-usable", "sub-type "+s.String()+" obtained a codec after the enclosing definition was processed")
					}
				}
				continue
			}
			c.Dim("subtype-probe")
			if msg := c08Battery(p, cfg, s); msg != "" {
				c.Violation(pre+"subtype-broken-afterwards:"+mc.PanicClass(msg), "sub-type "+s.String()+": "+msg)
			}
		}
		// ... and the other order: a definition the model rejects must be rejected whatever the instance
		// built before - in particular after each of its own valid sub-types (which are then in the registry)
		if verdict == ref.MustReject {
			for _, s := range subs {
				if s.K == ref.KRaw || s == t {
					continue
				}
				if v, _ := ref.Accept(cfg, s, ""); v != ref.MustAccept {
					continue
				}
				c.Dim("reject-after-subtype")
				c.Ops(2)
				q := NewPlenc(cfg)
				if _, err := q.CodecForType(s.Reflect()); err != nil {
					continue
				}
				if codec, err := q.CodecForType(rt); err == nil {
					c.Violation(pre+"accepted-after-subtype-was-built:"+mc.PanicClass(why), fmt.Sprintf("model: reject (%s); after CodecForType(%s) on the same instance plenc returned codec %T", why, s, codec))
					break
				}
			}
			// the struct-field form of the same thing: a valid field of the sub-type declared before the bad one
			for _, s := range subs {
				if s.K == ref.KRaw || s == t || t.K == ref.KStruct {
					continue
				}
				if v, _ := ref.Accept(cfg, s, ""); v != ref.MustAccept {
					continue
				}
				both := ref.Struct(ref.F{Name: "Good", Index: 1, T: s}, ref.F{Name: "Bad", Index: 2, T: t})
				if _, err := NewPlenc(cfg).CodecForType(both.Reflect()); err == nil {
					c.Violation(pre+"accepted-after-subtype-field:"+mc.PanicClass(why), fmt.Sprintf("model: reject (%s); accepted as the second field of %s", why, both))
					break
				}
			}
		}
		if c.WantSample() {
			c.Sample(map[string]string{"cfg": cfg.String(), "definition": t.String(), "model": verdict.String() + " " + why, "plenc_error": fmt.Sprint(err)})
		}
	})
}

func c08Unexported(c *mc.Ctx) {
	if !c.Begin(`{"set":"unexported","type":"gen.Unexp"}`) {
		return
	}
	c.Dim("set:unexported")
	c.NonTrivial()
	pre := "default|unexported|gen.Unexp|"
	c.Guard(pre, func() {
		p := NewPlenc(ref.Cfg{})
		x := 7
		a := gen.Unexp{A: 1, C: "skipme", E: 2, F: []byte("f")}
		a.SetUnexp("private", &x, 9)
		b := gen.Unexp{A: 1, E: 2}
		da, err := p.Marshal(nil, &a)
		if err != nil {
			c.Violation(pre+"marshal-error", err.Error())
			return
		}
		db, _ := p.Marshal(nil, &b)
		if !bytes.Equal(da, db) {
			c.Violation(pre+"unexported-or-skipped-field-encoded", fmt.Sprintf("%s vs %s", hx(da), hx(db)))
			return
		}
		// decode into a pre-populated target: skipped and unexported fields keep their values
		y := 8
		tgt := gen.Unexp{A: 100, C: "keep", E: 200, F: []byte("keep")}
		tgt.SetUnexp("keep", &y, 5)
		full := gen.Unexp{A: 3, C: "other", E: 4, F: []byte("other")}
		full.SetUnexp("other", &x, 6)
		df, _ := p.Marshal(nil, &full)
		if err := p.Unmarshal(df, &tgt); err != nil {
			c.Violation(pre+"unmarshal-error", err.Error())
			return
		}
		bb, d, xx := tgt.GetUnexp()
		if tgt.A != 3 || tgt.E != 4 || tgt.C != "keep" || string(tgt.F) != "keep" || bb != "keep" || d != &y || xx != 5 {
			c.Violation(pre+"unexported-or-skipped-field-written", fmt.Sprintf("%+v b=%q d=%v x=%d", tgt, bb, d, xx))
			return
		}
		c.Outcome("accepted")
	})
}

// c08RecursiveFail: a recursive definition that is rejected must not leave a
// usable (half-built) codec for its slice / pointer / containing types behind.
func c08RecursiveFail(c *mc.Ctx) {
	type probe struct {
		name string
		t    reflect.Type
		v    any
	}
	for _, order := range [][]int{{0, 1, 2}, {1, 0, 2}, {2, 1, 0}, {1, 2, 0}} {
		for _, fam := range []string{"RBad", "RDup"} {
			var ps []probe
			if fam == "RBad" {
				ps = []probe{{"RBad", reflect.TypeOf(gen.RBad{}), &gen.RBad{}}, {"[]RBad", reflect.TypeOf([]gen.RBad{}), &[]gen.RBad{{}, {A: []gen.RBad{{}}}}},
					{"struct{X []RBad}", reflect.TypeOf(struct {
						X []gen.RBad `plenc:"1"`
					}{}), &struct {
						X []gen.RBad `plenc:"1"`
					}{X: []gen.RBad{{}}}}}
			} else {
				ps = []probe{{"RDup", reflect.TypeOf(gen.RDup{}), &gen.RDup{B: 1}}, {"[]RDup", reflect.TypeOf([]gen.RDup{}), &[]gen.RDup{{B: 1}, {A: []gen.RDup{{C: 2}}}}},
					{"*RDup", reflect.TypeOf(&gen.RDup{}), &gen.RDup{C: 3}}}
			}
			if !c.Begin(fmt.Sprintf(`{"set":"recursive-fail","family":%q,"order":%q}`, fam, fmt.Sprint(order))) {
				continue
			}
			c.Dim("set:dups")
			c.NonTrivial()
			pre := "default|recursive-fail|" + fam + "|"
			c.Guard(pre, func() {
				p := NewPlenc(ref.Cfg{})
				for round := 0; round < 2; round++ {
					for _, i := range order {
						pr := ps[i]
						if _, err := p.CodecForType(pr.t); err == nil {
							c.Violation(pre+"codec-for-invalid-type:"+pr.name, fmt.Sprintf("order %v round %d: CodecForType(%s) succeeded", order, round, pr.name))
							return
						}
						if _, err := p.Marshal(nil, pr.v); err == nil {
							c.Violation(pre+"marshal-of-invalid-type-succeeds:"+pr.name, fmt.Sprintf("order %v round %d: Marshal(%s) succeeded", order, round, pr.name))
							return
						}
					}
				}
				c.Outcome("rejected")
			})
		}
	}
}
