package props

import (
	"bytes"
	"context"
	"fmt"
	"go/ast"
	"go/format"
	"go/importer"
	"go/parser"
	"go/printer"
	"go/token"
	"go/types"
	"os"
	"os/exec"
	"path/filepath"
	"reflect"
	"strconv"
	"strings"
	"syscall"
	"time"

	"verif/mc"
	"verif/ref"
)

func init() {
	register(&mc.Prop{
		ID: "C20",
		Rule: "Go source files generated from a grammar: struct declarations of 1-2 fields (thorough 3), each field drawn from {single name, two names, embedded E, embedded *E, unexported, blank} x {int, string, anonymous nested struct, type parameter} x " +
			"existing tag {none, other keys, plenc index, plenc \"-\", json \"-\", sql \"-\", malformed tag, malformed plenc index, interpreted string literal}, as package-level, generic, function-local and expression-level struct types, x the 16 combinations of -w -json -sql -private; the real plenctag binary (built from /repo) runs once per file and a second time on its own output. " +
			"Oracle: no crash; on error the file is untouched; otherwise the AST with tags erased is unchanged, every prior tag key/value is kept, new indexes exceed every prior index of the struct and are pairwise distinct per field name, excluded fields get \"-\", unexported fields are untouched by default, the output is gofmt-stable, type-checks, plenc builds a codec for every fully tagged struct, and the second run changes nothing. non-trivial = file in which at least one field needs a new tag",
		Assumptions: []string{"go/parser, go/format and go/types are the Go oracles; the binary is built from /repo/cmd/plenctag by bin/check and passed in VERIF_PLENCTAG"},
		Work:        c20Work,
		Post: func(a *mc.Agg) []string {
			return needDims(a, "shape:single", "shape:multi", "shape:embedded", "shape:unexported", "shape:blank", "tag:none", "tag:plenc", "tag:malformed", "ctx:generic", "ctx:local", "flags:16", "flags:omitted", "multi-file", "second-run", "presentation:loose")
		},
	})
}

type c20Field struct {
	src   string // source text of the field line
	shape string
	tag   string // class
}

func c20Fields() []c20Field {
	shapes := []struct{ name, decl string }{
		{"single", "A %s"}, {"multi", "X, Y %s"}, {"embedded", "E"}, {"embedded", "*E"}, {"embedded", "GE[int]"}, {"embedded", "*GE[string]"}, {"embedded", "GP[int, string]"}, {"embedded", "*GP[string, E]"}, {"embedded", "gp[int, int]"}, {"embedded", "time.Time"}, {"embedded", "e"}, {"unexported", "b %s"}, {"blank", "_ %s"},
	}
	typs := []string{"int", "string", "struct{ In int }"}
	tags := []struct{ class, lit string }{
		{"none", ""}, {"other", "`json:\"a,omitempty\"`"}, {"plenc", "`plenc:\"3\"`"}, {"plenc", "`json:\"q\" plenc:\"7\"`"}, {"plenc-skip", "`plenc:\"-\"`"},
		{"json-skip", "`json:\"-\"`"}, {"sql-skip", "`sql:\"-\" json:\"k\"`"}, {"malformed", "`json:a`"}, {"malformed", "`plenc:\"x\"`"}, {"interpreted", "\"json:\\\"s\\\"\""},
	}
	var out []c20Field
	for _, sh := range shapes {
		for ti, ty := range typs {
			if sh.name == "embedded" && ti > 0 {
				continue
			}
			for _, tg := range tags {
				decl := sh.decl
				if strings.Contains(decl, "%s") {
					decl = fmt.Sprintf(decl, ty)
				}
				if tg.lit != "" {
					decl += " " + tg.lit
				}
				out = append(out, c20Field{decl, sh.name, tg.class})
			}
		}
	}
	return out
}

// c20File renders one source file around the struct body.
func c20File(ctx string, fields []string) string {
	body := "\t" + strings.Join(fields, "\n\t") + "\n"
	var b strings.Builder
	b.WriteString("// Package p is generated.\npackage p\n\nimport \"time\"\n\nvar _ = time.Now\n\n// E is embedded.\ntype E struct {\n\tQ int `plenc:\"1\"`\n}\n\n// GE is a generic embedded type, e an unexported one.\ntype GE[T any] struct {\n\tV T `plenc:\"1\"`\n}\n\ntype e struct {\n\tW int `plenc:\"1\"`\n}\n\n// GP and gp have two type parameters.\ntype GP[K comparable, V any] struct {\n\tK K `plenc:\"1\"`\n\tV V `plenc:\"2\"`\n}\n\ntype gp[K comparable, V any] struct {\n\tK K `plenc:\"1\"`\n\tV V `plenc:\"2\"`\n}\n\n")
	switch ctx {
	case "pkg":
		b.WriteString("// S is the struct under test.\ntype S struct {\n" + body + "}\n")
	case "generic":
		b.WriteString("type S[T any] struct {\n" + body + "\tG T\n}\n")
	case "local":
		b.WriteString("func f() any {\n\ttype L struct {\n" + strings.ReplaceAll(body, "\t", "\t\t") + "\t}\n\treturn L{}\n}\n")
	case "expr":
		b.WriteString("var v = struct {\n" + body + "}{}\n")
	}
	return b.String()
}

// c20Importer type-checks imported standard packages from source (offline, cached per worker).
var c20Importer = importer.ForCompiler(token.NewFileSet(), "source", nil)

// c20Flags is one flag combination. A flag whose bit is set in omit is left off the command line;
// its field then holds the default the tool documents in its usage text (-w=true -json=false
// -sql=true -private=true), which is what the oracles expect the tool to apply.
// c20Hung is set once the tool had to be killed.
var c20Hung bool

type c20Flags struct {
	w, json, sql, private bool
	omit                  uint8
}

func (f c20Flags) args(files ...string) []string {
	var a []string
	for i, s := range []string{fmt.Sprintf("-w=%v", f.w), fmt.Sprintf("-json=%v", f.json), fmt.Sprintf("-sql=%v", f.sql), fmt.Sprintf("-private=%v", f.private)} {
		if f.omit&(1<<i) == 0 {
			a = append(a, s)
		}
	}
	return append(a, files...)
}

func (f c20Flags) String() string {
	return strings.Join(f.args(), " ")
}

// c20OmitFlags: every non-empty subset of the four flags omitted (so the defaults apply), the
// others set to the opposite of their default.
func c20OmitFlags() []c20Flags {
	var out []c20Flags
	for m := uint8(1); m < 16; m++ {
		f := c20Flags{w: false, json: true, sql: false, private: false, omit: m}
		if m&1 != 0 {
			f.w = true
		}
		if m&2 != 0 {
			f.json = false
		}
		if m&4 != 0 {
			f.sql = true
		}
		if m&8 != 0 {
			f.private = true
		}
		out = append(out, f)
	}
	return out
}

func c20Work(c *mc.Ctx) {
	bin := os.Getenv("VERIF_PLENCTAG")
	if bin == "" {
		c.MachineErr("VERIF_PLENCTAG is not set (bin/check builds /repo/cmd/plenctag and exports it)")
		return
	}
	os.MkdirAll(filepath.Join(mc.OutDir, ".build"), 0o755)
	dir, err := os.MkdirTemp(filepath.Join(mc.OutDir, ".build"), "c20-")
	if err != nil {
		c.MachineErr(err.Error())
		return
	}
	defer os.RemoveAll(dir)
	fields := c20Fields()
	var allFlags []c20Flags
	for i := 0; i < 16; i++ {
		allFlags = append(allFlags, c20Flags{i&1 != 0, i&2 != 0, i&4 != 0, i&8 != 0, 0})
	}
	fewFlags := []c20Flags{{true, false, true, true, 0}, {false, true, true, true, 0}, {true, true, false, false, 0}, {true, false, false, true, 0}}
	unit := 0
	run := func(ctx string, fs []c20Field, flags []c20Flags) {
		unit++
		if !c.Owns(unit) || c.Expired() {
			return
		}
		srcs := make([]string, len(fs))
		for i, f := range fs {
			srcs[i] = f.src
			// a second occurrence of the same names would not compile: rename
			if i > 0 {
				srcs[i] = strings.NewReplacer("A ", "A2 ", "X, Y ", "X2, Y2 ", "b ", "b2 ", "plenc:\"3\"", "plenc:\"5\"", "plenc:\"7\"", "plenc:\"2\"").Replace(srcs[i])
				if (f.shape == "embedded") && fs[0].shape == "embedded" {
					return
				}
			}
			if i > 1 {
				srcs[i] = strings.NewReplacer("A2 ", "A3 ", "X2, Y2 ", "X3, Y3 ", "b2 ", "b3 ", "plenc:\"5\"", "plenc:\"9\"", "plenc:\"2\"", "plenc:\"4\"").Replace(srcs[i])
				if f.shape == "embedded" {
					return
				}
			}
		}
		src := c20File(ctx, srcs)
		for _, fl := range flags {
			c20One(c, bin, dir, ctx, fs, src, fl)
		}
		if len(fs) == 1 && ctx == "pkg" {
			// flags left off the command line: the documented defaults apply
			for _, fl := range c20OmitFlags() {
				c.Dim("flags:omitted")
				c20One(c, bin, dir, ctx, fs, src, fl)
			}
			// several files in one invocation are each treated as when given alone
			c20Multi(c, bin, dir, src)
		}
		// the same file loosely formatted (spaces for tabs, blank lines, trailing padding): gofmt
		// makes it SHORTER than the input, which matters for the in-place (-w) output path
		if len(fs) == 1 {
			loose := strings.ReplaceAll(src, "\t", "        ")
			loose = strings.ReplaceAll(loose, "\n}", "\n\n\n}")
			loose += "\n\n\n// trailing padding " + strings.Repeat("x", 120) + "\n\n\n"
			for _, fl := range flags {
				if fl.w {
					c.Dim("presentation:loose")
					c20One(c, bin, dir, ctx, fs, loose, fl)
				}
			}
		}
	}
	for _, f := range fields {
		for _, ctx := range []string{"pkg", "generic", "local", "expr"} {
			run(ctx, []c20Field{f}, allFlags)
		}
	}
	for i, f1 := range fields {
		for j, f2 := range fields {
			if c.Tier != "thorough" && (i*31+j)%5 != 0 && !(f1.tag == "plenc" || f2.tag == "plenc") {
				continue // quick: every pair involving an existing index, one in five of the others
			}
			if c.Tier != "thorough" {
				run("pkg", []c20Field{f1, f2}, fewFlags[:2]) // quick: in place with defaults, and to stdout with -json
				continue
			}
			run("pkg", []c20Field{f1, f2}, fewFlags)
		}
	}
	if c.Tier == "thorough" {
		for i, f1 := range fields {
			for j, f2 := range fields {
				for k, f3 := range fields {
					if (i+j*7+k*13)%11 != 0 {
						continue
					}
					run("pkg", []c20Field{f1, f2, f3}, fewFlags[:2])
				}
			}
		}
	}
}

// tagMap parses a struct tag literal into key -> value (conventional format).
func c20TagMap(lit *ast.BasicLit) (map[string]string, []string, bool) {
	if lit == nil || lit.Value == "" {
		return map[string]string{}, nil, true
	}
	s, err := strconv.Unquote(lit.Value)
	if err != nil {
		return nil, nil, false
	}
	out := map[string]string{}
	var order []string
	st := reflect.StructTag(s)
	rest := s
	for rest != "" {
		rest = strings.TrimLeft(rest, " ")
		if rest == "" {
			break
		}
		i := strings.IndexByte(rest, ':')
		if i <= 0 || i+1 >= len(rest) || rest[i+1] != '"' {
			return nil, nil, false
		}
		key := rest[:i]
		j := i + 2
		for j < len(rest) && rest[j] != '"' {
			if rest[j] == '\\' {
				j++
			}
			j++
		}
		if j >= len(rest) {
			return nil, nil, false
		}
		v, _ := st.Lookup(key)
		out[key] = v
		order = append(order, key)
		rest = rest[j+1:]
	}
	return out, order, true
}

func c20Structs(f *ast.File) []*ast.StructType {
	var out []*ast.StructType
	ast.Inspect(f, func(n ast.Node) bool {
		if s, ok := n.(*ast.StructType); ok {
			out = append(out, s)
		}
		return true
	})
	return out
}

func c20EraseTags(f *ast.File) string {
	ast.Inspect(f, func(n ast.Node) bool {
		if s, ok := n.(*ast.StructType); ok {
			for _, fl := range s.Fields.List {
				fl.Tag = nil
			}
		}
		return true
	})
	var b bytes.Buffer
	printer.Fprint(&b, token.NewFileSet(), f)
	return b.String()
}

func c20FieldNames(f *ast.Field) []string {
	if len(f.Names) > 0 {
		var out []string
		for _, n := range f.Names {
			out = append(out, n.Name)
		}
		return out
	}
	// an embedded field is named after its type (Go spec): through *, type arguments and package qualifiers
	t := f.Type
	for {
		switch tt := t.(type) {
		case *ast.StarExpr:
			t = tt.X
			continue
		case *ast.IndexExpr:
			t = tt.X
			continue
		case *ast.IndexListExpr:
			t = tt.X
			continue
		case *ast.SelectorExpr:
			return []string{tt.Sel.Name}
		case *ast.Ident:
			return []string{tt.Name}
		}
		return []string{"?"}
	}
}

func c20One(c *mc.Ctx, bin, dir, ctx string, fs []c20Field, src string, fl c20Flags) {
	var shapes, tags []string
	for _, f := range fs {
		shapes = append(shapes, f.shape)
		tags = append(tags, f.tag)
	}
	if c20Hung {
		return
	}
	if !c.Begin(fmt.Sprintf(`{"ctx":%q,"flags":%q,"source":%q}`, ctx, fmt.Sprint(fl), src)) {
		return
	}
	for i := range fs {
		c.Dim("shape:" + shapes[i])
		c.Dim("tag:" + strings.TrimSuffix(tags[i], "-skip"))
	}
	c.Dim("ctx:" + ctx)
	c.Dim("flags:16")
	sig := fmt.Sprintf("%s|%s|%s|", ctx, strings.Join(shapes, "+"), strings.Join(tags, "+"))
	file := filepath.Join(dir, fmt.Sprintf("w%d.go", c.W))
	os.WriteFile(file, []byte(src), 0o644)
	runTool := func() (stdout, stderr string, code int) {
		// (the tool needs milliseconds; the deadline only turns a tool that never finishes into a report,
		// after which this worker stops: every further case would wait for it again)
		ctxT, cancel := context.WithTimeout(context.Background(), time.Minute)
		defer cancel()
		cmd := exec.CommandContext(ctxT, bin, fl.args(file)...)
		cmd.SysProcAttr = &syscall.SysProcAttr{Pdeathsig: syscall.SIGKILL} // never outlives this worker
		var so, se bytes.Buffer
		cmd.Stdout, cmd.Stderr = &so, &se
		err := cmd.Run()
		c.Ops(1)
		if ctxT.Err() != nil {
			c20Hung = true
			return so.String(), "panic: plenctag did not finish within a minute (killed)", -1
		}
		if ee, ok := err.(*exec.ExitError); ok {
			code = ee.ExitCode()
		} else if err != nil {
			code = -1
		}
		return so.String(), se.String(), code
	}
	stdout, stderr, code := runTool()
	if strings.Contains(stderr, "panic:") || strings.Contains(stderr, "goroutine ") || code == 2 || code < 0 {
		c.Outcome("crash")
		c.Violation(sig+"tool-crashed:"+mc.PanicClass(firstLine(strings.TrimPrefix(stderr[strings.Index(stderr, "panic:")+0:], ""))), fmt.Sprintf("flags %v exit %d stderr %s", fl, code, trunc200(stderr)))
		return
	}
	after, _ := os.ReadFile(file)
	fset := token.NewFileSet()
	inAST, err := parser.ParseFile(fset, "in.go", src, parser.ParseComments)
	if err != nil {
		c.MachineErr("C20 generator produced an unparsable file: " + err.Error())
		return
	}
	// does any field need a tag / is any tag malformed?
	// mustErr: an error is the only sound answer; mayErr: an error is acceptable
	needs, malformed, mayErr, preDup := false, false, false, false
	for _, st := range c20Structs(inAST) {
		for _, f := range st.Fields.List {
			skipped := fl.private && !ast.IsExported(c20FieldNames(f)[0])
			m, _, ok := c20TagMap(f.Tag)
			if !ok {
				mayErr = true
				if !skipped {
					malformed = true
				}
				continue
			}
			if v, has := m["plenc"]; has {
				if v != "-" {
					if _, err := strconv.Atoi(strings.SplitN(v, ",", 2)[0]); err != nil {
						malformed, mayErr = true, true
					} else if len(f.Names) > 1 {
						preDup = true // the input itself gives two names one index
					}
				}
				continue
			}
			if len(f.Names) > 1 && !skipped {
				malformed, mayErr = true, true // two names share one tag: they cannot get distinct indexes
			}
			needs = true
		}
	}
	if needs {
		c.NonTrivial()
	}
	if code != 0 {
		// errors are REPORTED: something must be said on stderr
		if strings.TrimSpace(stderr) == "" {
			c.Violation(sig+"failure-not-reported", fmt.Sprintf("flags %v: exit %d with nothing on stderr", fl, code))
			return
		}
		// the file must be untouched
		if !bytes.Equal(after, []byte(src)) {
			c.Violation(sig+"file-modified-despite-error", fmt.Sprintf("flags %v stderr %s", fl, trunc200(stderr)))
			return
		}
		if !mayErr {
			c.Outcome("unexpected-error")
			c.Violation(sig+"error-on-wellformed-input", fmt.Sprintf("flags %v stderr %s", fl, trunc200(stderr)))
			return
		}
		c.Outcome("error-reported")
		return
	}
	var outSrc []byte
	if fl.w {
		outSrc = after
	} else {
		outSrc = []byte(stdout)
		if !bytes.Equal(after, []byte(src)) {
			c.Violation(sig+"file-modified-without-w", "")
			return
		}
	}
	if malformed {
		c.Outcome("malformed-accepted")
		c.Violation(sig+"malformed-tag-not-reported", fmt.Sprintf("flags %v: exit 0", fl))
		return
	}
	outAST, err := parser.ParseFile(token.NewFileSet(), "out.go", outSrc, parser.ParseComments)
	if err != nil {
		c.Violation(sig+"output-does-not-parse", err.Error())
		return
	}
	// gofmt-stable
	if formatted, err := format.Source(outSrc); err != nil || !bytes.Equal(bytes.TrimRight(formatted, "\n"), bytes.TrimRight(outSrc, "\n")) {
		c.Violation(sig+"output-not-gofmt-formatted", "")
		return
	}
	// tags: compare struct by struct, field by field
	inS, outS := c20Structs(inAST), c20Structs(outAST)
	if len(inS) != len(outS) {
		c.Violation(sig+"struct-count-changed", "")
		return
	}
	for si := range inS {
		if len(inS[si].Fields.List) != len(outS[si].Fields.List) {
			c.Violation(sig+"field-count-changed", "")
			return
		}
		maxPre := 0
		for _, f := range inS[si].Fields.List {
			m, _, _ := c20TagMap(f.Tag)
			if v, ok := m["plenc"]; ok && v != "-" {
				n, _ := strconv.Atoi(strings.SplitN(v, ",", 2)[0])
				if n > maxPre {
					maxPre = n
				}
			}
		}
		used := map[int]string{}
		for _, f := range inS[si].Fields.List {
			m, _, _ := c20TagMap(f.Tag)
			if v, ok := m["plenc"]; ok && v != "-" {
				n, _ := strconv.Atoi(strings.SplitN(v, ",", 2)[0])
				used[n] = "pre-existing"
			}
		}
		for fi, f := range inS[si].Fields.List {
			of := outS[si].Fields.List[fi]
			im, _, _ := c20TagMap(f.Tag)
			om, _, ok := c20TagMap(of.Tag)
			if !ok {
				c.Violation(sig+"output-tag-malformed", fmt.Sprint(of.Tag))
				return
			}
			names := c20FieldNames(f)
			exported := ast.IsExported(names[0])
			for k, v := range im {
				if om[k] != v {
					c.Violation(sig+"existing-tag-changed:"+k, fmt.Sprintf("field %v: %q -> %q", names, v, om[k]))
					return
				}
			}
			_, had := im["plenc"]
			nv, has := om["plenc"]
			for k := range om {
				if _, was := im[k]; !was && k != "plenc" {
					c.Violation(sig+"foreign-tag-key-added:"+k, "")
					return
				}
			}
			switch {
			case had:
				// kept (checked above)
			case !exported && fl.private:
				if has {
					c.Violation(sig+"unexported-field-tagged-by-default", fmt.Sprintf("field %v got plenc:%q", names, nv))
					return
				}
			default:
				if !has {
					c.Violation(sig+"eligible-field-not-tagged", fmt.Sprintf("field %v", names))
					return
				}
				excluded := (fl.sql && im["sql"] == "-") || (fl.json && im["json"] == "-")
				if excluded {
					if nv != "-" {
						c.Violation(sig+"excluded-field-not-dashed", fmt.Sprintf("field %v got %q", names, nv))
						return
					}
					break
				}
				n, err := strconv.Atoi(nv)
				if err != nil || n <= maxPre {
					c.Violation(sig+"new-index-not-above-existing", fmt.Sprintf("field %v got %q, existing maximum %d", names, nv, maxPre))
					return
				}
				for _, name := range names {
					if who, dup := used[n]; dup {
						c.Violation(sig+"index-shared-between-fields", fmt.Sprintf("index %d given to %s and %s", n, who, name))
						return
					}
					used[n] = name
				}
			}
		}
	}
	inCopy, _ := parser.ParseFile(token.NewFileSet(), "in.go", src, parser.ParseComments)
	outCopy, _ := parser.ParseFile(token.NewFileSet(), "out.go", outSrc, parser.ParseComments)
	if a, b := c20EraseTags(inCopy), c20EraseTags(outCopy); a != b {
		c.Violation(sig+"changed-more-than-tags", fmt.Sprintf("before:\n%s\nafter:\n%s", a, b))
		return
	}
	// type-checks
	tfset := token.NewFileSet()
	tf, _ := parser.ParseFile(tfset, "out.go", outSrc, 0)
	conf := types.Config{Error: func(error) {}, Importer: c20Importer}
	if _, err := conf.Check("p", tfset, []*ast.File{tf}, nil); err != nil {
		c.Violation(sig+"output-does-not-type-check", err.Error())
		return
	}
	// plenc accepts every fully tagged, non-generic struct of the output
	for si, st := range outS {
		if preDup {
			break
		}
		if msg := c20PlencAccepts(st); msg != "" {
			c.Violation(sig+"plenc-rejects-tagged-struct:"+mc.PanicClass(msg), fmt.Sprintf("struct #%d of output:\n%s\n%s", si, outSrc, msg))
			return
		}
	}
	// second run is a fixed point
	if fl.w {
		c.Dim("second-run")
		_, stderr2, code2 := runTool()
		again, _ := os.ReadFile(file)
		if code2 != 0 || !bytes.Equal(again, after) {
			c.Violation(sig+"second-run-changes-file", fmt.Sprintf("exit %d stderr %s", code2, trunc200(stderr2)))
			return
		}
	}
	c.Outcome("ok")
	if c.WantSample() {
		c.Sample(map[string]string{"flags": fmt.Sprint(fl), "source": src, "output": string(outSrc)})
	}
}

// c20PlencAccepts rebuilds the struct with reflect and asks plenc for a codec.
func c20PlencAccepts(st *ast.StructType) (msg string) {
	defer func() {
		if r := recover(); r != nil {
			msg = "" // reflect cannot build it (e.g. unexported or blank fields): not judged
		}
	}()
	var sf []reflect.StructField
	for _, f := range st.Fields.List {
		var ft reflect.Type
		switch t := f.Type.(type) {
		case *ast.Ident:
			switch t.Name {
			case "int":
				ft = reflect.TypeOf(0)
			case "string":
				ft = reflect.TypeOf("")
			case "E":
				ft = reflect.TypeOf(struct {
					Q int `plenc:"1"`
				}{})
			default:
				return "" // type parameter etc.
			}
		case *ast.StarExpr:
			ft = reflect.TypeOf(&struct {
				Q int `plenc:"1"`
			}{})
		case *ast.StructType:
			ft = reflect.TypeOf(struct {
				In int `plenc:"1"`
			}{})
			for _, inner := range t.Fields.List {
				m, _, _ := c20TagMap(inner.Tag)
				if _, ok := m["plenc"]; !ok {
					return "nested anonymous struct field left without plenc tag"
				}
			}
		default:
			return ""
		}
		tag := ""
		if f.Tag != nil {
			tag, _ = strconv.Unquote(f.Tag.Value)
		}
		for _, name := range c20FieldNames(f) {
			if !ast.IsExported(name) {
				continue // plenc ignores unexported fields; reflect.StructOf cannot build them
			}
			sf = append(sf, reflect.StructField{Name: name, Type: ft, Tag: reflect.StructTag(tag)})
		}
	}
	rt := reflect.StructOf(sf)
	if _, err := NewPlenc(ref.Cfg{}).CodecForType(rt); err != nil {
		return err.Error()
	}
	return ""
}

// c20Multi: plenctag takes several files. Each file of one invocation must come out exactly as
// when it is the only argument (differential oracle; the single-file result is judged by c20One).
func c20Multi(c *mc.Ctx, bin, dir, src string) {
	other := "package p\n\ntype Other struct {\n\tP int\n\tQ string `json:\"q\" plenc:\"4\"`\n\tR []byte\n}\n"
	if !c.Begin(fmt.Sprintf(`{"set":"multi-file","source":%q}`, src)) {
		return
	}
	c.Dim("multi-file")
	c.NonTrivial()
	fa, fb := filepath.Join(dir, fmt.Sprintf("w%da.go", c.W)), filepath.Join(dir, fmt.Sprintf("w%db.go", c.W))
	run := func(files ...string) (string, int) {
		ctxT, cancel := context.WithTimeout(context.Background(), time.Minute)
		defer cancel()
		cmd := exec.CommandContext(ctxT, bin, files...)
		cmd.SysProcAttr = &syscall.SysProcAttr{Pdeathsig: syscall.SIGKILL}
		var se bytes.Buffer
		cmd.Stderr = &se
		err := cmd.Run()
		c.Ops(1)
		code := 0
		if ctxT.Err() != nil {
			c20Hung = true
			return "plenctag did not finish within a minute (killed)", -1
		}
		if ee, ok := err.(*exec.ExitError); ok {
			code = ee.ExitCode()
		} else if err != nil {
			code = -1
		}
		return se.String(), code
	}
	alone := func(path, text string) (string, int) {
		os.WriteFile(path, []byte(text), 0o644)
		_, code := run(path)
		b, _ := os.ReadFile(path)
		return string(b), code
	}
	if c20Hung {
		return
	}
	wantA, codeA := alone(fa, src)
	wantB, codeB := alone(fb, other)
	if c20Hung {
		c.Violation("multi-file|tool-crashed:hang", "plenctag did not finish within a minute on "+src)
		return
	}
	if codeA != 0 || codeB != 0 {
		c.Outcome("multi-skipped-error-alone")
		return // what happens to later files after an error is not specified
	}
	for _, order := range [][2]string{{fa, fb}, {fb, fa}} {
		os.WriteFile(fa, []byte(src), 0o644)
		os.WriteFile(fb, []byte(other), 0o644)
		stderr, code := run(order[0], order[1])
		gotA, _ := os.ReadFile(fa)
		gotB, _ := os.ReadFile(fb)
		if code != 0 || string(gotA) != wantA || string(gotB) != wantB {
			which := "second"
			if (order[0] == fa) == (string(gotA) != wantA) {
				which = "first"
			}
			c.Violation("multi-file|file-treated-differently-than-alone:"+which, fmt.Sprintf("plenctag %s %s: exit %d stderr %s\n%s alone becomes:\n%s\nin this invocation:\n%s\n%s alone becomes:\n%s\nin this invocation:\n%s",
				filepath.Base(order[0]), filepath.Base(order[1]), code, trunc200(stderr), filepath.Base(fa), wantA, gotA, filepath.Base(fb), wantB, gotB))
			return
		}
	}
	c.Outcome("ok")
}
