// Package gen holds the hand-written type family that reflect cannot build at
// run time: recursive, mutually recursive and named types.
package gen

import (
	"time"

	"github.com/unravelin/null"
)

// R is self-recursive through a slice.
type R struct {
	A []R    `plenc:"1"`
	B int    `plenc:"2"`
	C string `plenc:"3"`
}

// XR embeds a slice of R in another struct.
type XR struct {
	X []R `plenc:"1"`
	N int `plenc:"2"`
}

// A1 and B1 are mutually recursive (pointer one way, slice the other).
type A1 struct {
	B *B1 `plenc:"1"`
	X int `plenc:"2"`
}
type B1 struct {
	A []A1   `plenc:"1"`
	Y string `plenc:"2"`
}

// P is recursive through a pointer, M through a map value.
type P struct {
	Next *P  `plenc:"1"`
	V    int `plenc:"2"`
}
type M struct {
	Kids map[string]M `plenc:"1"`
	V    int          `plenc:"2"`
}

// In / T are nested but not recursive.
type In struct {
	A int     `plenc:"1"`
	B string  `plenc:"2"`
	F float64 `plenc:"3"`
}
type T struct {
	In In            `plenc:"1"`
	S  []In          `plenc:"2"`
	M  map[string]In `plenc:"3"`
	W  time.Time     `plenc:"4"`
}

// RBad is recursive and has an unsupported field after the recursive one, so
// building its codec must fail - and must leave nothing usable behind.
type RBad struct {
	A []RBad    `plenc:"1"`
	B complex64 `plenc:"2"`
}

// RDup is recursive with a duplicated index (detected only at the end of the build).
type RDup struct {
	A []RDup `plenc:"1"`
	B int    `plenc:"2"`
	C int    `plenc:"2"`
}

// Intern has two independently interned fields and a plain twin.
type Intern struct {
	A string `plenc:"1,intern"`
	B string `plenc:"2,intern"`
	C string `plenc:"3"`
}
type Plain struct {
	A string `plenc:"1"`
	B string `plenc:"2"`
	C string `plenc:"3"`
}

// K / MK exercise the pooled scratch key of map decoding.
type K struct {
	A int `plenc:"1"`
	B int `plenc:"2"`
}
type MK struct {
	M map[K]string `plenc:"1"`
}

// MKP is MK in the protobuf map form (another reader, same scratch pool).
type MKP struct {
	M map[K]string `plenc:"1,proto"`
}

// Every has one field per codec family; used for steady-state concurrency scenarios.
type Every struct {
	I   int               `plenc:"1"`
	IF  int64             `plenc:"2,flat"`
	U   uint32            `plenc:"3"`
	F   float64           `plenc:"4"`
	F32 float32           `plenc:"5"`
	B   bool              `plenc:"6"`
	S   string            `plenc:"7"`
	SI  string            `plenc:"8,intern"`
	By  []byte            `plenc:"9"`
	T   time.Time         `plenc:"10"`
	PI  *int              `plenc:"11"`
	PS  *In               `plenc:"12"`
	In  In                `plenc:"13"`
	LI  []int             `plenc:"14"`
	LF  []float64         `plenc:"15"`
	LS  []string          `plenc:"16"`
	LSP []string          `plenc:"17,proto"`
	LIn []In              `plenc:"18"`
	LP  []*In             `plenc:"19"`
	MSI map[string]int    `plenc:"20"`
	MK  map[K]string      `plenc:"21"`
	MP  map[string]string `plenc:"22,proto"`
	MKP map[K]*In         `plenc:"23,proto"`
	NS  null.String       `plenc:"24"`
	NI  null.Int          `plenc:"25"`
	NT  null.Time         `plenc:"26"`
	NSI null.String       `plenc:"27,intern"`
}

// Named kinds.
type MyInt int
type MyString string
type MyBytes []byte
type MyFloat float64
type MyBool bool
type MyU8 uint8
type Named struct {
	I  MyInt    `plenc:"1"`
	S  MyString `plenc:"2"`
	B  MyBytes  `plenc:"3"`
	F  MyFloat  `plenc:"4"`
	O  MyBool   `plenc:"5"`
	U  []MyU8   `plenc:"6"`
	IF MyInt    `plenc:"7,flat"`
}

// NIntern / NPlain: interned null.String and its twin.
type NIntern struct {
	A null.String `plenc:"1,intern"`
	B string      `plenc:"2,intern"`
}
type NPlain struct {
	A null.String `plenc:"1"`
	B string      `plenc:"2"`
}

// Unexp mixes encoded fields with unexported, blank and skipped ones.
type Unexp struct {
	A  int    `plenc:"1"`
	b  string //nolint
	C  string `plenc:"-"`
	d  *int   //nolint
	_  int
	E  int    `plenc:"2"`
	_x int    `plenc:"3"` //nolint
	F  []byte `plenc:"-"`
}

// SetUnexp fills the unexported fields (the harness lives in another package).
func (u *Unexp) SetUnexp(b string, d *int, x int) { u.b, u.d, u._x = b, d, x }

// GetUnexp reads them back.
func (u *Unexp) GetUnexp() (string, *int, int) { return u.b, u.d, u._x }

// Marker is a named int used to see which codec ran (C17). D0..D7 are distinct
// named ints reserved for registrations on the package-level default instance,
// which cannot be reset between histories.
type Marker int
type D0 int
type D1 int
type D2 int
type D3 int
type D4 int
type D5 int
type D6 int
type D7 int

// Named twins of every basic kind (C02: named types encode as their underlying kind).
type NBool bool
type NInt int
type NInt8 int8
type NInt16 int16
type NInt32 int32
type NInt64 int64
type NUint uint
type NUint8 uint8
type NUint16 uint16
type NUint32 uint32
type NUint64 uint64
type NFloat32 float32
type NFloat64 float64
type NString string

// Named container and pointer types (a named type keeps the codec of its underlying kind).
type NPtrF32 *float32
type NPtrF64 *float64
type NPtrInt *int
type NPtrStr *string
type NSliceF64 []float64
type NSliceInt []int
type NSliceStr []string
type NMapSI map[string]int
type NBytes []byte
