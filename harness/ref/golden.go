package ref

import (
	"bytes"
	"fmt"
	"os"
	"path/filepath"
	"reflect"
	"time"
)

// CheckGolden binds the model to the code base's own golden files: the reference
// encoder must reproduce every plenccodec/testdata/*.golden byte for byte.
func CheckGolden(repo string) error {
	i32 := int32(1234)
	type person struct {
		Name string
		Age  int
	}
	type big struct {
		Name string
		Age  int
		F32  float32
		F64  float64
		I    int
		J    []uint32
		K    []string
		L    *int
		M    *int32
	}
	bigT := Struct(Fld(1, Leaf(KString)), FldO(2, "flat", Leaf(KInt)), Fld(3, Leaf(KFloat32)), Fld(4, Leaf(KFloat64)), Fld(5, Leaf(KInt)),
		Fld(6, Slice(Leaf(KUint32))), Fld(7, Slice(Leaf(KString))), Fld(8, Ptr(Leaf(KInt))), Fld(9, Ptr(Leaf(KInt32))))
	cases := []struct {
		name string
		t    *T
		v    any
	}{
		{"string", Leaf(KString), "hats"},
		{"string_array", Slice(Leaf(KString)), []string{"hats", "coats"}},
		{"bytes", Leaf(KBytes), []byte{1, 2, 3, 4}},
		{"int16", Leaf(KInt16), int16(1234)},
		{"int32", Leaf(KInt32), int32(1234)},
		{"int64", Leaf(KInt64), int64(12343453453)},
		{"uint16", Leaf(KUint16), uint16(1234)},
		{"uint32", Leaf(KUint32), uint32(1234)},
		{"uint64", Leaf(KUint64), uint64(12343453453)},
		{"int_array", Slice(Leaf(KInt)), []int{1, 2, 1337, 98, -100}},
		{"float32", Leaf(KFloat32), float32(1234.5678)},
		{"float64", Leaf(KFloat64), float64(1234.5678)},
		{"float_array", Slice(Leaf(KFloat64)), []float64{1.2, 3.4, 5.6}},
		{"bool", Leaf(KBool), true},
		{"bool_array", Slice(Leaf(KBool)), []bool{true, false, true}},
		{"struct", bigT, big{"Phil", 1337, 1234.5678, 1234.5678, -234332, []uint32{747439, 2223, 3344}, []string{"hats", "coats"}, nil, &i32}},
		{"struct_array", Slice(Struct(Fld(1, Leaf(KString)), Fld(2, Leaf(KInt)))), []person{{"Phil", 1337}, {"Bob", 42}}},
		{"map", Map(Leaf(KString), Leaf(KInt)), map[string]int{"Phil": 1337}},
		{"time", Leaf(KTime), time.Date(1970, 3, 15, 13, 37, 42, 0, time.UTC)},
	}
	n := 0
	for _, c := range cases {
		want, err := os.ReadFile(filepath.Join(repo, "plenccodec", "testdata", c.name+".golden"))
		if err != nil {
			return fmt.Errorf("golden file %s: %v", c.name, err)
		}
		v := FromReflect(c.t, reflect.ValueOf(c.v))
		got := EncTop(Cfg{}, c.t, v).Bytes()
		if !bytes.Equal(got, want) {
			return fmt.Errorf("reference encoder disagrees with golden file %s: model %x golden %x", c.name, got, want)
		}
		n++
	}
	// README: counted-list description and the doc example tags
	ex := Struct(Fld(1, Leaf(KInt)), F{Name: "B", Skip: true, T: Leaf(KString)}, Fld(2, Leaf(KFloat64)), FldO(3, "intern", Leaf(KString)))
	b := EncTop(Cfg{}, ex, V{E: []V{{U: 1}, {S: "x"}, {U: 0x3ff8000000000000}, {S: "d"}}}).Bytes()
	if fmt.Sprintf("%x", b) != "080211000000000000f83f1a0164" {
		return fmt.Errorf("reference encoder self-test failed: %x", b)
	}
	return nil
}
