package props

import (
	"fmt"
	"reflect"

	"github.com/philpearl/plenc/plenccodec"

	"verif/gen"
	"verif/mc"
	"verif/ref"
)

func init() {
	register(&mc.Prop{
		ID: "C14",
		Rule: "every type-in-position of the universe x 2-4 configurations, plus for every struct every field given each json tag form {none, \"n\", \"n,omitempty\", \",omitempty\", \"-\"}, every tag option, null and hand-written named types, and the recursive family (each in a crash-isolated case). " +
			"Oracle: the Descriptor returned by the real codec equals the reference descriptor on Index, Name, Type, struct TypeName, ExplicitPresence, LogicalType, element count and order, recursively (the synthesised name of map-entry pseudo structs is not compared). non-trivial = type with at least one struct, map, pointer, time or tag option",
		Assumptions: []string{"ref.Descriptor is written from the doc comments of plenccodec.Descriptor and C14's statement"},
		Work:        c14Work,
		Post: func(a *mc.Agg) []string {
			return needDims(a, "json:n", "json:n,omitempty", "json:,omitempty", "json:-", "universe", "named", "skipped", "build-order")
		},
	})
}

var fieldTypeNames = map[plenccodec.FieldType]string{plenccodec.FieldTypeInt: "Int", plenccodec.FieldTypeUint: "Uint", plenccodec.FieldTypeFloat32: "Float32", plenccodec.FieldTypeFloat64: "Float64",
	plenccodec.FieldTypeString: "String", plenccodec.FieldTypeSlice: "Slice", plenccodec.FieldTypeStruct: "Struct", plenccodec.FieldTypeBool: "Bool", plenccodec.FieldTypeTime: "Time",
	plenccodec.FieldTypeJSONObject: "JSONObject", plenccodec.FieldTypeJSONArray: "JSONArray", plenccodec.FieldTypeFlatInt: "FlatInt"}

var logicalNames = map[plenccodec.LogicalType]string{plenccodec.LogicalTypeNone: "", plenccodec.LogicalTypeTimestamp: "Timestamp", plenccodec.LogicalTypeDate: "Date", plenccodec.LogicalTypeTime: "Time",
	plenccodec.LogicalTypeMap: "Map", plenccodec.LogicalTypeMapEntry: "MapEntry"}

func fromDesc(d plenccodec.Descriptor) ref.D {
	o := ref.D{Index: d.Index, Name: d.Name, Type: fieldTypeNames[d.Type], TypeName: d.TypeName, Presence: d.ExplicitPresence, Logical: logicalNames[d.LogicalType]}
	if o.Type == "" {
		o.Type = fmt.Sprintf("FieldType(%d)", d.Type)
	}
	for _, e := range d.Elements {
		o.Elems = append(o.Elems, fromDesc(e))
	}
	return o
}

func c14Work(c *mc.Ctx) {
	items := ref.Universe(c.Tier)
	unit := 0
	one := func(dim string, cfg ref.Cfg, t *ref.T, rt reflect.Type) {
		unit++
		if !c.Owns(unit) {
			return
		}
		if !c.Begin(fmt.Sprintf(`{"cfg":%q,"set":%q,"type":%q}`, cfg, dim, t)) {
			return
		}
		c.Dim(dim)
		if t.Contains(func(x *ref.T) bool {
			return x.K == ref.KStruct || x.K == ref.KMap || x.K == ref.KPtr || x.K == ref.KTime
		}) {
			c.NonTrivial()
		}
		pre := fmt.Sprintf("%s|%s|", cfg, t)
		c.Guard(pre, func() {
			p := NewPlenc(cfg)
			if rt == nil {
				rt = t.Reflect()
			}
			codec, err := p.CodecForType(rt)
			c.Ops(2)
			if err != nil {
				c.Violation(pre+"codec-error", err.Error())
				return
			}
			got := fromDesc(codec.Descriptor())
			want := ref.Descriptor(cfg, t, "")
			if s := ref.DiffD(want, got, ""); s != "" {
				c.Outcome("differs")
				c.Violation(pre+"descriptor-differs:"+mc.PanicClass(s), s)
				return
			}
			c.Outcome("ok")
			if c.WantSample() {
				c.Sample(map[string]any{"cfg": cfg.String(), "type": t.String(), "descriptor": fmt.Sprintf("%+v", got)})
			}
		})
	}
	for _, it := range items {
		for _, cfg := range cfgsFor(it.T) {
			if v, _ := ref.Accept(cfg, it.T, ""); v != ref.MustAccept {
				continue
			}
			one("universe", cfg, it.T, it.T.Reflect())
		}
		// json tag variants: each field of a top-level struct gets each tag form
		if it.T.K == ref.KStruct && it.Pos == "field" {
			for fi := range it.T.Fields {
				for _, j := range []string{"n", "n,omitempty", ",omitempty", "-"} {
					fs := append([]ref.F(nil), it.T.Fields...)
					fs[fi].JSON = j
					t2 := ref.Struct(fs...)
					one("json:"+j, ref.Cfg{}, t2, t2.Reflect())
				}
			}
		}
	}
	// skipped fields in every position: 4 fields of different types with json names and
	// non-monotonic indexes, every subset of them tagged "-" (the descriptor must list exactly
	// the others, each with its own name, index and type)
	L := ref.Leaf
	skipBase := []ref.F{
		{Name: "Alpha", Index: 7, T: L(ref.KInt)},
		{Name: "Beta", Index: 2, JSON: "bee,omitempty", T: L(ref.KString)},
		{Name: "Gamma", Index: 300, T: ref.Ptr(L(ref.KFloat64))},
		{Name: "Delta", Index: 1, JSON: "dee", T: ref.Slice(L(ref.KString))},
	}
	for mask := 1; mask < 16; mask++ {
		fs := append([]ref.F(nil), skipBase...)
		for i := range fs {
			if mask&(1<<i) != 0 {
				fs[i].Skip = true
			}
		}
		t2 := ref.Struct(fs...)
		one("skipped", ref.Cfg{}, t2, t2.Reflect())
		// and the same struct as a nested field, slice element and map value
		one("skipped", ref.Cfg{}, ref.Struct(ref.Fld(1, t2), ref.Fld(2, ref.Slice(t2)), ref.Fld(3, ref.Map(L(ref.KString), t2))), nil)
	}
	// unexported and blank fields between encoded ones (hand-written: reflect cannot build them)
	unexp := &ref.T{K: ref.KStruct, GoName: "Unexp", Named: "gen.Unexp", Fields: []ref.F{
		{Name: "A", Index: 1, T: L(ref.KInt)}, {Name: "b", NoTag: true, T: L(ref.KString)}, {Name: "C", Skip: true, T: L(ref.KString)},
		{Name: "d", NoTag: true, T: ref.Ptr(L(ref.KInt))}, {Name: "_", NoTag: true, T: L(ref.KInt)}, {Name: "E", Index: 2, T: L(ref.KInt)},
		{Name: "_x", Index: 3, T: L(ref.KInt)}, {Name: "F", Skip: true, T: L(ref.KBytes)}}}
	ref.RegisterNamed("gen.Unexp", reflect.TypeOf(gen.Unexp{}))
	one("skipped", ref.Cfg{}, unexp, reflect.TypeOf(gen.Unexp{}))
	// hand-written named types
	named := &ref.T{K: ref.KStruct, GoName: "Named", Named: "gen.Named", Fields: []ref.F{
		{Name: "I", Index: 1, T: L(ref.KInt)}, {Name: "S", Index: 2, T: L(ref.KString)}, {Name: "B", Index: 3, T: &ref.T{K: ref.KSlice, Elem: L(ref.KUint8)}},
		{Name: "F", Index: 4, T: L(ref.KFloat64)}, {Name: "O", Index: 5, T: L(ref.KBool)}, {Name: "U", Index: 6, T: &ref.T{K: ref.KSlice, Elem: L(ref.KUint8)}},
		{Name: "IF", Index: 7, Opt: "flat", T: L(ref.KInt)}}}
	ref.RegisterNamed("gen.Named", reflect.TypeOf(gen.Named{}))
	one("named", ref.Cfg{}, named, reflect.TypeOf(gen.Named{}))
	tT := &ref.T{K: ref.KStruct, GoName: "T", Named: "gen.T", Fields: []ref.F{
		{Name: "In", Index: 1, T: &ref.T{K: ref.KStruct, GoName: "In", Fields: []ref.F{{Name: "A", Index: 1, T: L(ref.KInt)}, {Name: "B", Index: 2, T: L(ref.KString)}, {Name: "F", Index: 3, T: L(ref.KFloat64)}}}},
	}}
	inT := tT.Fields[0].T
	tT.Fields = append(tT.Fields, ref.F{Name: "S", Index: 2, T: &ref.T{K: ref.KSlice, Elem: inT}}, ref.F{Name: "M", Index: 3, T: ref.Map(L(ref.KString), inT)}, ref.F{Name: "W", Index: 4, T: L(ref.KTime)})
	ref.RegisterNamed("gen.T", reflect.TypeOf(gen.T{}))
	one("named", ref.Cfg{}, tT, reflect.TypeOf(gen.T{}))
	// the Descriptor must not depend on which types the instance built before
	bo := 1 << 20
	buildOrder(c, &bo, "C14", descProbe)
	// recursive family: Descriptor() must terminate (each in its own crash-attributed case)
	for _, r := range []struct {
		name string
		rt   reflect.Type
	}{{"gen.R", reflect.TypeOf(gen.R{})}, {"gen.A1", reflect.TypeOf(gen.A1{})}, {"gen.P", reflect.TypeOf(gen.P{})}, {"gen.M", reflect.TypeOf(gen.M{})}, {"[]gen.R", reflect.TypeOf([]gen.R{})}} {
		unit++
		if !c.Owns(unit) {
			continue
		}
		if !c.Begin(fmt.Sprintf(`{"set":"recursive","type":%q,"sigkey":"recursive:%s"}`, r.name, r.name)) {
			continue
		}
		c.Dim("recursive")
		c.NonTrivial()
		pre := "default|recursive:" + r.name + "|"
		c.Guard(pre, func() {
			p := NewPlenc(ref.Cfg{})
			codec, err := p.CodecForType(r.rt)
			if err != nil {
				c.Violation(pre+"codec-error", err.Error())
				return
			}
			d := codec.Descriptor() // a recursive type has no finite descriptor; it must at least return
			c.Outcome(fmt.Sprintf("recursive-descriptor-returned(%d elements)", len(d.Elements)))
		})
	}
}
