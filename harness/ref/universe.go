package ref

// Item is one member of the bounded type universe: a base type placed in a position.
type Item struct {
	T    *T     // the complete (top-level) type handed to plenc
	Base *T     // the type under study
	Opt  string // tag option on the base's field, when the position is a field
	Pos  string // top, field, elem, mapval, mapkey, ptrfield, sweep
	Vals []V    // when non-nil, the values to enumerate for this item (instead of Values(T, level))
}

var AllLeaves = []Kind{KBool, KInt, KInt8, KInt16, KInt32, KInt64, KUint, KUint8, KUint16, KUint32, KUint64,
	KFloat32, KFloat64, KString, KBytes, KTime, KNullInt, KNullBool, KNullFloat, KNullString, KNullTime}

// RepLeaves has one representative per wire class / codec family.
var RepLeaves = []Kind{KInt, KUint8, KBool, KFloat32, KFloat64, KString, KBytes, KTime, KNullString}

func leaves(ks []Kind) []*T {
	out := make([]*T, len(ks))
	for i, k := range ks {
		out[i] = Leaf(k)
	}
	return out
}

// S0 is the representative small struct; S0K the representative struct key.
func S0() *T  { return Struct(Fld(1, Leaf(KInt)), Fld(2, Leaf(KString))) }
func S0K() *T { return Struct(Fld(1, Leaf(KInt)), Fld(2, Leaf(KInt))) }

// Grow applies every type constructor once to every base type. Only
// combinations the model does not reject outright are kept.
func Grow(cfg Cfg, base []*T, keys []*T, asKeys bool) []*T {
	var out []*T
	keep := func(t *T) {
		if t.K == KSlice && isNull(deref(t.Elem).K) {
			return // presence of null types inside slices is not claimed by any property (DESIGN §10)
		}
		if v, _ := Accept(cfg, t, ""); v != MustReject {
			out = append(out, t)
		}
	}
	for _, x := range base {
		keep(Ptr(x))
		keep(Slice(x))
		for _, k := range keys {
			keep(Map(k, x))
		}
		if asKeys && x.Comparable() && x.K != KPtr {
			keep(Map(x, Leaf(KInt)))
		}
		keep(Struct(Fld(1, x)))
	}
	return out
}

// Opts lists the tag options meaningful for a field of type t (always includes "").
func Opts(t *T) []string {
	u := t
	for u.K == KPtr {
		u = u.Elem
	}
	switch {
	case isSignedInt(u.K):
		return []string{"", "flat"}
	case u.K == KString || u.K == KNullString:
		return []string{"", "intern"}
	case u.K == KMap:
		return []string{"", "proto"}
	case u.K == KSlice && ClassOf(Cfg{}, u.Elem, "") == CL:
		return []string{"", "proto"}
	}
	return []string{""}
}

func uniq(ts []*T) []*T {
	seen := map[string]bool{}
	var out []*T
	for _, t := range ts {
		if s := t.String(); !seen[s] {
			seen[s] = true
			out = append(out, t)
		}
	}
	return out
}

// Bases returns the base types of the universe for a tier.
func Bases(tier string) []*T {
	all := leaves(AllLeaves)
	rep := append(leaves(RepLeaves), S0())
	keys := []*T{Leaf(KString), Leaf(KInt)}
	var out []*T
	out = append(out, all...)
	out = append(out, S0(), Struct())
	// named twins of every basic kind: they must encode exactly like their underlying kind
	var namedLeaves []*T
	for _, k := range AllLeaves {
		if n, ok := NamedLeafNames[k]; ok {
			namedLeaves = append(namedLeaves, &T{K: k, Named: n})
		}
	}
	out = append(out, namedLeaves...)
	out = append(out, Grow(Cfg{}, namedLeaves, keys[:1], true)...)
	// named pointer, slice, map and byte-slice types: same encoding as their unnamed twins
	nc := NamedContainers()
	out = append(out, nc...)
	out = append(out, Grow(Cfg{}, nc, keys[:1], false)...)
	d1all := Grow(Cfg{}, all, keys, true)
	out = append(out, d1all...)
	d1 := Grow(Cfg{}, rep, []*T{Leaf(KString)}, true)
	d2 := Grow(Cfg{}, d1, []*T{Leaf(KString), S0K()}, false)
	out = append(out, d2...)
	// a few hand-picked deeper or wider shapes
	out = append(out,
		Map(S0K(), Ptr(Leaf(KInt))),
		Map(S0K(), S0()),
		Map(Struct(Fld(1, Leaf(KString)), Fld(2, Leaf(KFloat64))), Leaf(KString)),
		Struct(Fld(1, Leaf(KInt)), Fld(2, Leaf(KString)), Fld(3, Slice(Leaf(KFloat64))), Fld(4, Ptr(Leaf(KBool)))),
		Struct(Fld(1, Slice(S0())), Fld(2, Map(Leaf(KString), S0()))),
		Struct(Fld(15, Leaf(KInt)), Fld(16, Leaf(KInt)), Fld(2047, Leaf(KString)), Fld(2048, Leaf(KString))),
		Slice(Slice(Leaf(KUint))),
		Slice(Ptr(S0())),
		Ptr(Ptr(Leaf(KInt))),
	)
	if tier == "thorough" {
		d3 := Grow(Cfg{}, Grow(Cfg{}, Grow(Cfg{}, leaves([]Kind{KInt, KFloat64, KString, KTime}), []*T{Leaf(KString)}, false),
			[]*T{Leaf(KString)}, false), []*T{Leaf(KInt)}, false)
		out = append(out, d3...)
	}
	return uniq(out)
}

// Place puts a base type into every position of the universe.
func Place(x *T) []Item {
	var out []Item
	out = append(out, Item{T: x, Base: x, Pos: "top"})
	sent := func(f F) *T { return Struct(f, F{Name: "Z", Index: 9, T: Leaf(KInt)}) }
	for _, o := range Opts(x) {
		out = append(out, Item{T: sent(FldO(1, o, x)), Base: x, Opt: o, Pos: "field"})
	}
	fx := sent(Fld(1, x))
	out = append(out, Item{T: sent(Fld(1, Slice(fx))), Base: x, Pos: "elem"})
	out = append(out, Item{T: sent(Fld(1, Map(Leaf(KString), fx))), Base: x, Pos: "mapval"})
	if x.Comparable() && x.K != KPtr && !x.Contains(func(t *T) bool { return t.K == KPtr }) {
		out = append(out, Item{T: sent(Fld(1, Map(Struct(Fld(1, x), Fld(2, Leaf(KInt))), Leaf(KInt)))), Base: x, Pos: "mapkey"})
	}
	if x.K != KMap {
		for _, o := range Opts(x) {
			out = append(out, Item{T: sent(FldO(1, o, Ptr(x))), Base: x, Opt: o, Pos: "ptrfield"})
		}
	}
	return out
}

// Universe lists every (type, position) item for a tier. Items whose complete
// type the model rejects are dropped (C08 studies those).
func Universe(tier string) []Item {
	out := SizeSweep(tier)
	out = append(out, Interaction()...)
	out = append(out, Extremes()...)
	seen := map[string]bool{}
	for _, b := range Bases(tier) {
		for _, it := range Place(b) {
			if v, _ := Accept(Cfg{}, it.T, ""); v == MustReject {
				continue
			}
			if s := it.T.String(); !seen[s] {
				seen[s] = true
				out = append(out, it)
			}
		}
	}
	return out
}

// CfgSensitive reports whether any configuration switch can change t's encoding.
func CfgSensitive(t *T) (timeSens, arraySens bool) {
	timeSens = t.Contains(func(x *T) bool { return x.K == KTime })
	arraySens = t.Contains(func(x *T) bool { return x.K == KSlice && ClassOf(Cfg{}, x.Elem, "") == CL })
	return
}

func deref(t *T) *T {
	for t.K == KPtr {
		t = t.Elem
	}
	return t
}

func isNull(k Kind) bool { return k >= KNullInt && k <= KNullTime }

// Recursive returns the hand-written recursive / mutually recursive family as
// cyclic type expressions (their reflect types are registered by package gen users).
func Recursive() []Item {
	L := Leaf
	r := &T{K: KStruct, Named: "gen.R", GoName: "R"}
	r.Fields = []F{{Name: "A", Index: 1, T: &T{K: KSlice, Elem: r}}, {Name: "B", Index: 2, T: L(KInt)}, {Name: "C", Index: 3, T: L(KString)}}
	a1 := &T{K: KStruct, Named: "gen.A1", GoName: "A1"}
	b1 := &T{K: KStruct, Named: "gen.B1", GoName: "B1"}
	a1.Fields = []F{{Name: "B", Index: 1, T: Ptr(b1)}, {Name: "X", Index: 2, T: L(KInt)}}
	b1.Fields = []F{{Name: "A", Index: 1, T: &T{K: KSlice, Elem: a1}}, {Name: "Y", Index: 2, T: L(KString)}}
	p := &T{K: KStruct, Named: "gen.P", GoName: "P"}
	p.Fields = []F{{Name: "Next", Index: 1, T: Ptr(p)}, {Name: "V", Index: 2, T: L(KInt)}}
	m := &T{K: KStruct, Named: "gen.M", GoName: "M"}
	m.Fields = []F{{Name: "Kids", Index: 1, T: Map(L(KString), m)}, {Name: "V", Index: 2, T: L(KInt)}}
	var out []Item
	// the recursion-depth dimension: lists / trees / maps of every depth 1..24 and a few long ones
	var pv, rv, mv []V
	for _, n := range []int{1, 2, 3, 4, 5, 6, 7, 8, 9, 10, 11, 12, 13, 14, 15, 16, 17, 18, 19, 20, 21, 22, 23, 24, 50, 200, 1000} {
		pl := V{E: []V{{Nil: true}, {U: uint64(n)}}}
		rl := V{E: []V{{Nil: true}, {U: 1}, {S: "leaf"}}}
		ml := V{E: []V{{Nil: true}, {U: 1}}}
		for d := 1; d < n; d++ {
			pl = V{E: []V{{E: []V{pl}}, {U: uint64(d)}}}
			rl = V{E: []V{{E: []V{rl, {E: []V{{Nil: true}, {U: uint64(d)}, {S: ""}}}}}, {U: uint64(d)}, {S: "n" + itoa(d)}}}
			ml = V{E: []V{{E: []V{{S: "k" + itoa(d)}, ml}}, {U: uint64(d)}}}
		}
		pv, rv, mv = append(pv, pl), append(rv, rl), append(mv, ml)
	}
	out = append(out, Item{T: p, Base: p, Pos: "recursive-depth", Vals: pv}, Item{T: r, Base: r, Pos: "recursive-depth", Vals: rv}, Item{T: m, Base: m, Pos: "recursive-depth", Vals: mv})
	for _, t := range []*T{r, a1, b1, p, m} {
		out = append(out, Item{T: t, Base: t, Pos: "recursive"},
			Item{T: &T{K: KSlice, Elem: t}, Base: t, Pos: "recursive"},
			Item{T: Struct(F{Name: "F1", Index: 1, T: Ptr(t)}, F{Name: "Z", Index: 9, T: L(KInt)}), Base: t, Pos: "recursive"})
	}
	return out
}

// NamedContainers lists the named composite types of package gen as type expressions.
func NamedContainers() []*T {
	return []*T{
		{K: KPtr, Named: "gen.NPtrInt", Elem: Leaf(KInt)}, {K: KPtr, Named: "gen.NPtrStr", Elem: Leaf(KString)},
		{K: KSlice, Named: "gen.NSliceF64", Elem: Leaf(KFloat64)}, {K: KSlice, Named: "gen.NSliceInt", Elem: Leaf(KInt)}, {K: KSlice, Named: "gen.NSliceStr", Elem: Leaf(KString)},
		{K: KMap, Named: "gen.NMapSI", Key: Leaf(KString), Elem: Leaf(KInt)},
		// a NAMED byte-slice type is not the registered []byte type: plenc (documentedly keyed on the exact
		// type, falling back on the kind) treats it as a slice of uint8, i.e. packed varints
		{K: KSlice, Named: "gen.NBytes", Elem: Leaf(KUint8)},
	}
}

// NamedLeafNames maps a basic kind to the registered name of its named twin (package gen).
var NamedLeafNames = map[Kind]string{KBool: "gen.NBool", KInt: "gen.NInt", KInt8: "gen.NInt8", KInt16: "gen.NInt16", KInt32: "gen.NInt32", KInt64: "gen.NInt64",
	KUint: "gen.NUint", KUint8: "gen.NUint8", KUint16: "gen.NUint16", KUint32: "gen.NUint32", KUint64: "gen.NUint64", KFloat32: "gen.NFloat32", KFloat64: "gen.NFloat64", KString: "gen.NString"}

// SweepLengths are the container / string lengths of the size sweep: every length up to 34
// (slice readers grow at 8, 16, 32), and the neighbourhoods of the powers of two up to 1024
// (element-count and byte-length prefixes change width at 128; multiples of 128 have a
// first varint byte of 0x80), for strings and byte slices also 2048 and 16384 (three-byte prefix).
func SweepLengths(tier string, long bool) []int {
	var ls []int
	for i := 0; i <= 34; i++ {
		ls = append(ls, i)
	}
	for _, p := range []int{64, 128, 192, 256, 384, 512, 1024} {
		ls = append(ls, p-1, p, p+1)
	}
	// 2^14: where element counts and byte lengths start to need a third varint byte
	ls = append(ls, 16383, 16384, 16385)
	if long {
		// byte lengths: every bit of a three-byte length varint both set and clear
		ls = append(ls, 2047, 2048, 2049, 24576, 32767, 32768, 32769, 40960, 49152, 65535, 65536, 65537)
		if tier == "thorough" {
			ls = append(ls, 98304, 131072, 1<<21-1, 1<<21, 1<<21+1)
		}
	} else if tier == "thorough" {
		ls = append(ls, 32768, 49152, 65535, 65536, 65537)
	}
	return ls
}

// SizeSweep is the size dimension of the universe: one item per container shape, nested in a
// struct inside a struct (so that the enclosing length prefixes cross their boundaries too),
// with one value per length, elements all distinct.
func SizeSweep(tier string) []Item { return sizeSweep(tier, false) }

// BigMaps is the part of the size sweep with maps of 2^14 entries (where the entry count needs a
// third varint byte); only checks whose oracle is linear in the map size use it (C01).
func BigMaps(tier string) []Item { return sizeSweep(tier, true) }

func sizeSweep(tier string, bigMaps bool) []Item {
	L := Leaf
	type shape struct {
		t    *T
		opt  string
		long bool
		elem func(i int) V // slice element / map key+value pair (E: k, v) / nil for string-like
	}
	istr := func(i int) V {
		if i%7 == 3 {
			return V{S: ""}
		}
		return V{S: "e" + itoa(i)}
	}
	s0 := func(i int) V { return V{E: []V{{U: uint64(int64(i*37 - 500))}, istr(i)}} }
	pair := func(k, v V) V { return V{E: []V{k, v}} }
	shapes := []shape{
		{t: L(KString), long: true}, {t: L(KBytes), long: true},
		{t: Slice(L(KInt)), elem: func(i int) V { return V{U: uint64(int64(i*37 - 500))} }},
		{t: Slice(L(KUint16)), elem: func(i int) V { return V{U: uint64(i * 61 % 65536)} }},
		{t: Slice(L(KFloat32)), elem: func(i int) V { return V{U: uint64(0x3f800000 + i)} }},
		{t: Slice(L(KFloat64)), elem: func(i int) V { return V{U: 0x3ff0000000000000 + uint64(i)} }},
		{t: Slice(L(KBool)), elem: func(i int) V { return V{U: uint64(i % 2)} }},
		{t: Slice(L(KString)), elem: istr}, {t: Slice(L(KString)), opt: "proto", elem: istr},
		{t: Slice(L(KBytes)), elem: func(i int) V { return V{S: "b" + itoa(i)} }},
		{t: Slice(S0()), elem: s0}, {t: Slice(S0()), opt: "proto", elem: s0},
		{t: Slice(Ptr(S0())), elem: func(i int) V { return V{E: []V{s0(i)}} }},
		{t: Slice(Ptr(L(KInt))), elem: func(i int) V { return V{E: []V{{U: uint64(i + 1)}}} }},
		{t: Slice(Slice(L(KUint))), elem: func(i int) V { return V{E: []V{{U: uint64(i)}, {U: uint64(i * 300)}}} }},
		{t: Slice(L(KTime)), elem: func(i int) V { return V{Sec: int64(i) * 1000003, Ns: int32(i * 7919)} }},
		{t: Map(L(KString), L(KInt)), elem: func(i int) V { return pair(V{S: "k" + itoa(i)}, V{U: uint64(i)}) }},
		{t: Map(L(KString), L(KInt)), opt: "proto", elem: func(i int) V { return pair(V{S: "k" + itoa(i)}, V{U: uint64(i)}) }},
		{t: Map(L(KInt), L(KString)), elem: func(i int) V { return pair(V{U: uint64(int64(i - 3))}, istr(i)) }},
		{t: Map(S0K(), L(KString)), elem: func(i int) V { return pair(V{E: []V{{U: uint64(i)}, {U: uint64(i % 3)}}}, istr(i)) }},
		{t: Map(S0K(), L(KString)), opt: "proto", elem: func(i int) V { return pair(V{E: []V{{U: uint64(i)}, {U: uint64(i % 3)}}}, istr(i)) }},
		{t: Map(L(KString), S0()), elem: func(i int) V { return pair(V{S: "k" + itoa(i)}, s0(i)) }},
		{t: Map(L(KString), Ptr(L(KInt))), elem: func(i int) V { return pair(V{S: "k" + itoa(i)}, V{E: []V{{U: uint64(i % 2)}}}) }},
	}
	var out []Item
	for _, sh := range shapes {
		inner := Struct(FldO(1, sh.opt, sh.t), F{Name: "Z", Index: 9, T: L(KInt)})
		top := Struct(Fld(1, inner), F{Name: "Z", Index: 9, T: L(KInt)})
		var vals []V
		for _, n := range SweepLengths(tier, sh.long) {
			if sh.t.K == KMap && n > 2000 && !bigMaps {
				continue // unordered matching of the byte- and JSON-level oracles is quadratic: see BigMaps
			}
			if bigMaps && (sh.t.K != KMap || n <= 2000) {
				continue
			}
			var x V
			switch {
			case sh.elem == nil:
				b := make([]byte, n)
				for i := range b {
					b[i] = byte('a' + i%23)
				}
				x = V{S: string(b)}
			case sh.t.K == KMap:
				x = V{E: make([]V, 0, 2*n)}
				for i := 0; i < n; i++ {
					kv := sh.elem(i)
					x.E = append(x.E, kv.E[0], kv.E[1])
				}
			default:
				x = V{E: make([]V, n)}
				for i := range x.E {
					x.E[i] = sh.elem(i)
				}
			}
			vals = append(vals, V{E: []V{{E: []V{x, {U: 7}}}, {U: 9}}})
		}
		if len(vals) == 0 {
			continue
		}
		out = append(out, Item{T: top, Base: sh.t, Opt: sh.opt, Pos: "sweep", Vals: vals})
	}
	return out
}

// InternHistory is the history dimension of interned fields: one decode pushes n DISTINCT values
// through a single interned field (a slice of n structs), for n around every power of two up to
// 2^13 (thorough: 2^14; the interned-field check C19 goes beyond 2^14 in its quick tier). The intern table of that field grows by one entry per new value, so n is
// also the table size the last element is decoded against. One item per n (own worker each: the
// library copies its table for every new value, which makes a decode quadratic in n).
func InternHistory(tier string) []Item {
	maxK := 13
	if tier == "thorough" {
		maxK = 14
	}
	var out []Item
	for k := 8; k <= maxK; k++ {
		for _, n := range []int{1<<k - 1, 1 << k, 1<<k + 1} {
			elem := Struct(Fld(1, Leaf(KInt)), FldO(2, "intern", Leaf(KString)), FldO(3, "intern", Leaf(KNullString)))
			top := Struct(Fld(1, Slice(elem)), F{Name: "Z", Index: 9, T: Leaf(KInt)})
			x := V{E: make([]V, n)}
			for i := range x.E {
				x.E[i] = V{E: []V{{U: uint64(i)}, {S: "v" + itoa(i)}, {S: "n" + itoa(i/2)}}}
			}
			out = append(out, Item{T: top, Base: elem, Opt: "intern", Pos: "intern-history", Vals: []V{{E: []V{x, {U: 9}}}}})
		}
	}
	return out
}

func itoa(i int) string {
	if i == 0 {
		return "0"
	}
	var b []byte
	for ; i > 0; i /= 10 {
		b = append([]byte{byte('0' + i%10)}, b...)
	}
	return string(b)
}

// Interaction lists struct types in which one derived type occurs twice - once with a tag
// option and once without (or with another one), directly or inside a further constructor -
// in both declaration orders. The codecs of such fields are built through one shared
// (type, tag)-keyed registry, so these shapes are where a lookup under the wrong key shows.
// Also structs whose declared indexes are not ascending.
func Interaction() []Item {
	L := Leaf
	type dd struct {
		t    *T
		opts []string
	}
	ds := []dd{
		{Ptr(L(KInt64)), []string{"", "flat"}}, {&T{K: KInt, Named: "gen.NInt"}, []string{"", "flat"}}, {L(KInt32), []string{"", "flat"}},
		{Slice(L(KString)), []string{"", "proto"}}, {Slice(S0()), []string{"", "proto"}}, {Map(L(KString), L(KInt)), []string{"", "proto"}},
		{L(KString), []string{"", "intern"}}, {Ptr(L(KString)), []string{"", "intern"}}, {L(KNullString), []string{"", "intern"}},
		{Slice(Ptr(S0())), []string{"", "proto"}}, {Ptr(L(KTime)), []string{""}},
	}
	var out []Item
	seen := map[string]bool{}
	add := func(f1, f2 F) {
		for _, order := range [][2]F{{f1, f2}, {f2, f1}} {
			a, b := order[0], order[1]
			a.Name, a.Index, b.Name, b.Index = "F1", 1, "F2", 2
			t := Struct(a, b, F{Name: "Z", Index: 9, T: L(KInt)})
			if v, _ := Accept(Cfg{}, t, ""); v == MustReject || seen[t.String()] {
				continue
			}
			seen[t.String()] = true
			out = append(out, Item{T: t, Base: f1.T, Opt: f1.Opt, Pos: "interact"})
		}
	}
	for _, d := range ds {
		for _, o1 := range d.opts {
			f1 := F{Opt: o1, T: d.t}
			for _, o2 := range d.opts {
				if o2 != o1 {
					add(f1, F{Opt: o2, T: d.t})
				}
				add(f1, F{T: Struct(F{Name: "G", Index: 1, Opt: o2, T: d.t})})
				if d.t.K != KPtr && d.t.K != KMap {
					add(f1, F{Opt: o2, T: Ptr(d.t)})
				}
			}
			if d.t.K != KMap {
				add(f1, F{T: Map(L(KString), d.t)})
			}
			if !isNull(deref(d.t).K) { // presence of null types inside slices is not claimed (DESIGN §10)
				add(f1, F{T: &T{K: KSlice, Elem: d.t}})
			}
			add(f1, F{T: &T{K: KSlice, Elem: Struct(F{Name: "G", Index: 1, T: d.t})}})
		}
	}
	// declared indexes not ascending (the encoder writes declaration order, the reader any order)
	for _, idx := range [][3]int{{3, 1, 2}, {2, 3, 1}, {2048, 1, 16}, {16, 2047, 15}} {
		t := Struct(F{Name: "A", Index: idx[0], T: L(KString)}, F{Name: "B", Index: idx[1], T: L(KInt)}, F{Name: "C", Index: idx[2], T: Slice(L(KUint))})
		out = append(out, Item{T: t, Base: t, Pos: "interact"},
			Item{T: Struct(Fld(1, t), Fld(2, Slice(t)), F{Name: "Z", Index: 9, T: L(KInt)}), Base: t, Pos: "interact"})
	}
	return out
}

// Extremes lists shapes at the far end of one structural dimension each: very wide structs
// (dense and sparse indexes), deep towers of nested structs, long pointer chains, deep
// slices of slices - each with explicit values (all zero, all set, one field set at a time).
func Extremes() []Item {
	L := Leaf
	var out []Item
	// wide structs
	for _, w := range []int{17, 64, 65, 130, 260} {
		for _, mode := range []int{0, 1, 2} {
			// 0: dense ascending; 1: sparse ascending; 2: dense, declared in an order that is NOT the index
			// order (fields added in the middle later on, the usual way a struct evolves)
			sparse := mode == 1
			if mode != 0 && w > 65 {
				continue
			}
			fs := make([]F, w)
			for i := range fs {
				idx := i + 1
				if mode == 2 {
					idx = (i*7)%w + 1 // a permutation of 1..w for every w used here (none divisible by 7)
				}
				if sparse {
					idx = i * 67 // 0 (the lowest index the library accepts) up to 4300: fieldsByIndex is a dense table
				}
				t := L(KInt)
				switch i % 4 {
				case 1:
					t = L(KString)
				case 2:
					t = Slice(L(KUint))
				case 3:
					t = Ptr(L(KBool))
				}
				fs[i] = F{Name: "W" + itoa(i), Index: idx, T: t}
			}
			t := Struct(fs...)
			set := func(i int) V {
				switch i % 4 {
				case 1:
					return V{S: "s" + itoa(i)}
				case 2:
					return V{E: []V{{U: uint64(i)}, {U: uint64(i) << 20}}}
				case 3:
					return V{E: []V{{U: uint64(i / 4 % 2)}}}
				}
				return V{U: uint64(int64(i*31 - 1000))}
			}
			zero := V{E: make([]V, w)}
			all := V{E: make([]V, w)}
			for i := range fs {
				zero.E[i] = Zero(fs[i].T)
				all.E[i] = set(i)
			}
			vals := []V{zero, all}
			for i := range fs {
				one := V{E: append([]V(nil), zero.E...)}
				one.E[i] = set(i)
				vals = append(vals, one)
			}
			out = append(out, Item{T: t, Base: t, Pos: "extreme", Vals: vals})
		}
	}
	// maps whose key / value types are larger than 1 KiB (the map codec keeps a zero value of each;
	// beyond 1 KiB it allocates one) - with a zero key, a zero value and ordinary entries
	{
		kf := make([]F, 140)
		vf := make([]F, 70)
		for i := range kf {
			kf[i] = F{Name: "K" + itoa(i), Index: i + 1, T: L(KInt)}
		}
		for i := range vf {
			vf[i] = F{Name: "V" + itoa(i), Index: i + 1, T: L(KString)}
		}
		bigK, bigV := Struct(kf...), Struct(vf...)
		zk, zv := Zero(bigK), Zero(bigV)
		k1, v1 := Zero(bigK), Zero(bigV)
		k1.E = append([]V(nil), k1.E...)
		v1.E = append([]V(nil), v1.E...)
		k1.E[0], k1.E[139] = V{U: 5}, V{U: uint64(^uint64(0))}
		v1.E[0], v1.E[69] = V{S: "first"}, V{S: "last"}
		for _, opt := range []string{"", "proto"} {
			t := Struct(FldO(1, opt, Map(bigK, bigV)), F{Name: "Z", Index: 9, T: L(KInt)})
			out = append(out, Item{T: t, Base: bigV, Opt: opt, Pos: "extreme", Vals: []V{
				{E: []V{{Nil: true}, {}}}, {E: []V{{E: []V{zk, zv}}, {U: 1}}}, {E: []V{{E: []V{zk, v1}}, {U: 1}}}, {E: []V{{E: []V{k1, zv}}, {U: 1}}}, {E: []V{{E: []V{k1, v1, zk, v1}}, {U: 1}}},
			}})
		}
	}
	// pointer-shaped towers: single-field structs around a pointer or map, 1..4 levels - Go keeps
	// such values directly in the interface data word, which matters when they are marshalled by value
	for depth := 1; depth <= 4; depth++ {
		for _, leaf := range []*T{Ptr(L(KInt)), Map(L(KString), L(KInt)), Ptr(S0())} {
			t := leaf
			var vals []V
			switch leaf.K {
			case KMap:
				vals = []V{{Nil: true}, {E: []V{{S: "a"}, {U: 1}}}, {E: []V{{S: ""}, {}, {S: "k"}, {U: 7}}}}
			default:
				if leaf.Elem.K == KStruct {
					vals = []V{{Nil: true}, {E: []V{{E: []V{{}, {S: ""}}}}}, {E: []V{{E: []V{{U: 7}, {S: "x"}}}}}}
				} else {
					vals = []V{{Nil: true}, {E: []V{{}}}, {E: []V{{U: 7}}}}
				}
			}
			for d := 0; d < depth; d++ {
				t = Struct(Fld(1, t))
				for i := range vals {
					vals[i] = V{E: []V{vals[i]}}
				}
			}
			out = append(out, Item{T: t, Base: leaf, Pos: "extreme", Vals: vals})
		}
	}
	// towers of nested structs / pointer chains / slices of slices
	for _, depth := range []int{4, 8, 16, 40} {
		tower := L(KInt)
		vset, vzero := V{U: 7}, V{}
		for d := 0; d < depth; d++ {
			tower = Struct(Fld(1, tower), Fld(2, L(KString)))
			vset = V{E: []V{vset, {S: "d" + itoa(d)}}}
			vzero = V{E: []V{vzero, {S: ""}}}
		}
		out = append(out, Item{T: tower, Base: tower, Pos: "extreme", Vals: []V{vzero, vset}})
		if depth <= 8 {
			chain := L(KInt)
			cv := V{U: 5}
			czero := V{}
			for d := 0; d < depth; d++ {
				chain = Ptr(chain)
				cv = V{E: []V{cv}}
				czero = V{E: []V{czero}}
			}
			t := Struct(Fld(1, chain), F{Name: "Z", Index: 9, T: L(KInt)})
			out = append(out, Item{T: t, Base: chain, Pos: "extreme", Vals: []V{{E: []V{{Nil: true}, {}}}, {E: []V{cv, {U: 1}}}, {E: []V{czero, {U: 1}}}}})
		}
	}
	return out
}
