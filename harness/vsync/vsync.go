// Package vsync mirrors the API of package sync. Built into the code under test
// through an import-rewriting overlay, it turns every synchronisation operation
// into a scheduling point of verif/sched. Outside a controlled execution the
// types behave like the real ones.
package vsync

import (
	"sync"

	"verif/sched"
)

type Locker = sync.Locker

type Mutex struct {
	real     sync.Mutex
	held     bool
	realHeld bool
}

func (m *Mutex) Lock() {
	if !sched.Active() {
		m.real.Lock()
		m.held, m.realHeld = true, true
		return
	}
	sched.PointOp("Mutex.Lock", sched.OpSig{Obj: m}, func() bool { return !m.held })
	m.held = true
}

func (m *Mutex) TryLock() bool {
	if !sched.Active() {
		ok := m.real.TryLock()
		if ok {
			m.held, m.realHeld = true, true
		}
		return ok
	}
	sched.PointOp("Mutex.TryLock", sched.OpSig{Obj: m}, nil)
	if m.held {
		return false
	}
	m.held = true
	return true
}

func (m *Mutex) Unlock() {
	if !sched.Active() {
		m.held = false
		// the lock may have been taken under the scheduler (flag only)
		if m.realHeld {
			m.realHeld = false
			m.real.Unlock()
		}
		return
	}
	sched.PointOp("Mutex.Unlock", sched.OpSig{Obj: m}, nil)
	if !m.held {
		panic("sync: unlock of unlocked mutex")
	}
	m.held = false
}

type RWMutex struct {
	real    sync.RWMutex
	writer  bool
	readers int
}

func (m *RWMutex) Lock() {
	if !sched.Active() {
		m.real.Lock()
		return
	}
	sched.PointOp("RWMutex.Lock", sched.OpSig{Obj: m}, func() bool { return !m.writer && m.readers == 0 })
	m.writer = true
}
func (m *RWMutex) Unlock() {
	if !sched.Active() {
		if m.writer {
			m.writer = false
			return
		}
		m.real.Unlock()
		return
	}
	sched.PointOp("RWMutex.Unlock", sched.OpSig{Obj: m}, nil)
	m.writer = false
}
func (m *RWMutex) RLock() {
	if !sched.Active() {
		m.real.RLock()
		return
	}
	sched.PointOp("RWMutex.RLock", sched.OpSig{Obj: m}, func() bool { return !m.writer })
	m.readers++
}
func (m *RWMutex) RUnlock() {
	if !sched.Active() {
		if m.readers > 0 {
			m.readers--
			return
		}
		m.real.RUnlock()
		return
	}
	sched.PointOp("RWMutex.RUnlock", sched.OpSig{Obj: m}, nil)
	m.readers--
}
func (m *RWMutex) TryLock() bool {
	if !sched.Active() {
		return m.real.TryLock()
	}
	sched.PointOp("RWMutex.TryLock", sched.OpSig{Obj: m}, nil)
	if m.writer || m.readers > 0 {
		return false
	}
	m.writer = true
	return true
}
func (m *RWMutex) TryRLock() bool {
	if !sched.Active() {
		return m.real.TryRLock()
	}
	sched.PointOp("RWMutex.TryRLock", sched.OpSig{Obj: m}, nil)
	if m.writer {
		return false
	}
	m.readers++
	return true
}
func (m *RWMutex) RLocker() Locker { return (*rlocker)(m) }

type rlocker RWMutex

func (r *rlocker) Lock()   { (*RWMutex)(r).RLock() }
func (r *rlocker) Unlock() { (*RWMutex)(r).RUnlock() }

type Once struct {
	real    sync.Once
	done    bool
	running bool
}

func (o *Once) Do(f func()) {
	if !sched.Active() {
		if o.done {
			return
		}
		o.real.Do(func() { f(); o.done = true })
		return
	}
	sched.PointOp("Once.Do", sched.OpSig{Obj: o}, func() bool { return !o.running })
	if o.done {
		return
	}
	o.running = true
	defer func() { o.running, o.done = false, true }()
	f()
}

func OnceFunc(f func()) func() {
	var o Once
	return func() { o.Do(f) }
}

func OnceValue[T any](f func() T) func() T {
	var o Once
	var v T
	return func() T { o.Do(func() { v = f() }); return v }
}

func OnceValues[T1, T2 any](f func() (T1, T2)) func() (T1, T2) {
	var o Once
	var a T1
	var b T2
	return func() (T1, T2) { o.Do(func() { a, b = f() }); return a, b }
}

// Pool models sync.Pool. Whether Get returns a pooled item or calls New is an
// environment choice the explorer enumerates (the real pool may do either).
type Pool struct {
	New   func() any
	mu    sync.Mutex
	items []any
}

func (p *Pool) Get() any {
	if !sched.Active() {
		p.mu.Lock()
		defer p.mu.Unlock()
		if n := len(p.items); n > 0 {
			x := p.items[n-1]
			p.items = p.items[:n-1]
			return x
		}
		if p.New != nil {
			return p.New()
		}
		return nil
	}
	sched.PointOp("Pool.Get", sched.OpSig{Obj: p}, nil)
	if n := len(p.items); n > 0 {
		// default: reuse the most recently returned item; deviation: behave as if the pool had been drained
		if sched.EnvChoice("Pool.Get(reuse|fresh)", 2) == 0 {
			x := p.items[n-1]
			p.items = p.items[:n-1]
			return x
		}
	}
	if p.New != nil {
		return p.New()
	}
	return nil
}

func (p *Pool) Put(x any) {
	if x == nil {
		return
	}
	if !sched.Active() {
		p.mu.Lock()
		p.items = append(p.items, x)
		p.mu.Unlock()
		return
	}
	sched.PointOp("Pool.Put", sched.OpSig{Obj: p}, nil)
	p.items = append(p.items, x)
}

// Map wraps the real sync.Map; every method is one scheduling point whose signature
// names the map and the key, so operations on different keys are independent.
type Map struct{ real sync.Map }

func (m *Map) Load(k any) (any, bool) {
	sched.PointOp("Map.Load", sched.OpSig{Obj: m, Key: k, Read: true}, nil)
	return m.real.Load(k)
}
func (m *Map) Store(k, v any) {
	sched.PointOp("Map.Store", sched.OpSig{Obj: m, Key: k}, nil)
	m.real.Store(k, v)
}
func (m *Map) Delete(k any) {
	sched.PointOp("Map.Delete", sched.OpSig{Obj: m, Key: k}, nil)
	m.real.Delete(k)
}
func (m *Map) Clear() { sched.PointOp("Map.Clear", sched.OpSig{Obj: m}, nil); m.real.Clear() }
func (m *Map) Range(f func(k, v any) bool) {
	sched.PointOp("Map.Range", sched.OpSig{Obj: m}, nil)
	m.real.Range(f)
}
func (m *Map) LoadOrStore(k, v any) (any, bool) {
	sched.PointOp("Map.LoadOrStore", sched.OpSig{Obj: m, Key: k}, nil)
	return m.real.LoadOrStore(k, v)
}
func (m *Map) LoadAndDelete(k any) (any, bool) {
	sched.PointOp("Map.LoadAndDelete", sched.OpSig{Obj: m, Key: k}, nil)
	return m.real.LoadAndDelete(k)
}
func (m *Map) Swap(k, v any) (any, bool) {
	sched.PointOp("Map.Swap", sched.OpSig{Obj: m, Key: k}, nil)
	return m.real.Swap(k, v)
}
func (m *Map) CompareAndSwap(k, o, n any) bool {
	sched.PointOp("Map.CompareAndSwap", sched.OpSig{Obj: m, Key: k}, nil)
	return m.real.CompareAndSwap(k, o, n)
}
func (m *Map) CompareAndDelete(k, o any) bool {
	sched.PointOp("Map.CompareAndDelete", sched.OpSig{Obj: m, Key: k}, nil)
	return m.real.CompareAndDelete(k, o)
}

type WaitGroup struct {
	real sync.WaitGroup
	n    int
}

func (w *WaitGroup) Add(d int) {
	if !sched.Active() {
		w.real.Add(d)
		return
	}
	sched.PointOp("WaitGroup.Add", sched.OpSig{Obj: w}, nil)
	w.n += d
	if w.n < 0 {
		panic("sync: negative WaitGroup counter")
	}
}
func (w *WaitGroup) Done() { w.Add(-1) }
func (w *WaitGroup) Wait() {
	if !sched.Active() {
		w.real.Wait()
		return
	}
	sched.PointOp("WaitGroup.Wait", sched.OpSig{Obj: w}, func() bool { return w.n == 0 })
}

type Cond struct {
	L       Locker
	real    *sync.Cond
	waiters []*bool
}

func NewCond(l Locker) *Cond { return &Cond{L: l, real: sync.NewCond(l)} }

func (c *Cond) Wait() {
	if !sched.Active() {
		c.real.Wait()
		return
	}
	woken := false
	c.waiters = append(c.waiters, &woken)
	c.L.Unlock()
	sched.PointOp("Cond.Wait", sched.OpSig{Obj: c}, func() bool { return woken })
	c.L.Lock()
}
func (c *Cond) Signal() {
	if !sched.Active() {
		c.real.Signal()
		return
	}
	sched.PointOp("Cond.Signal", sched.OpSig{Obj: c}, nil)
	if len(c.waiters) > 0 {
		*c.waiters[0] = true
		c.waiters = c.waiters[1:]
	}
}
func (c *Cond) Broadcast() {
	if !sched.Active() {
		c.real.Broadcast()
		return
	}
	sched.PointOp("Cond.Broadcast", sched.OpSig{Obj: c}, nil)
	for _, w := range c.waiters {
		*w = true
	}
	c.waiters = nil
}
