package props

import (
	"fmt"

	"github.com/unravelin/null"
	"reflect"

	"github.com/philpearl/plenc/plenccodec"

	"verif/mc"
	"verif/ref"
)

func init() {
	register(&mc.Prop{
		ID: "C09",
		Rule: "every pointee type X (all leaves, a struct, an empty struct, []int, []string) in every presence-carrying position (pointer field, null.X field, pointer / null.X map value under zero and non-zero keys, **X, pointer to struct holding pointers, map[K]*struct, slice of structs with pointer and null fields), each between a preceding and a following sibling, " +
			"x values {absent, present zero, present non-zero, present but encoding to nothing} x 2-4 configurations. Oracles: presence and pointee after the round trip equal the reference expectation; a plain zero field leaves no tag in the bytes; ExplicitPresence in the Descriptor is set for exactly the pointer / null typed struct fields and map values. non-trivial = value with at least one present pointer or valid null",
		Assumptions: []string{"slice-element descriptors are not judged (the statement lists fields, map entries and null types)"},
		Work: func(c *mc.Ctx) {
			enumItems(c, c09Items(), c09Case)
			if c.Owns(0) {
				c09MapKeyPresence(c)
			}
		},
		Post: func(a *mc.Agg) []string {
			return needDims(a, "pos:ptr-field", "pos:null-field", "pos:map-ptr", "pos:map-null", "pos:ptrptr", "pos:nested", "pos:slice-struct", "descriptor-flags", "plain-zero-no-tag", "map-key-presence")
		},
	})
}

func c09Items() []ref.Item {
	L := ref.Leaf
	var xs []*ref.T
	for _, k := range ref.AllLeaves {
		if k < ref.KNullInt || k > ref.KNullTime {
			xs = append(xs, L(k))
		}
	}
	xs = append(xs, ref.S0(), ref.Struct(), ref.Slice(L(ref.KInt)), ref.Slice(L(ref.KString)))
	sib := func(mid ref.F) *ref.T {
		return ref.Struct(ref.F{Name: "A", Index: 1, T: L(ref.KInt)}, mid, ref.F{Name: "Z", Index: 9, T: L(ref.KString)})
	}
	f := func(t *ref.T) ref.F { return ref.F{Name: "F", Index: 4, T: t} }
	var out []ref.Item
	add := func(pos string, base, t *ref.T) { out = append(out, ref.Item{T: t, Base: base, Pos: pos}) }
	for _, x := range xs {
		add("ptr-field", x, sib(f(ref.Ptr(x))))
		add("map-ptr", x, sib(f(ref.Map(L(ref.KString), ref.Ptr(x)))))
		add("map-ptr", x, sib(f(ref.Map(L(ref.KInt), ref.Ptr(x)))))
		add("ptrptr", x, sib(f(ref.Ptr(ref.Ptr(x)))))
		add("nested", x, sib(f(ref.Ptr(ref.Struct(ref.Fld(1, ref.Ptr(x)), ref.Fld(2, L(ref.KInt)))))))
		add("nested", x, sib(f(ref.Map(L(ref.KInt), ref.Ptr(ref.Struct(ref.Fld(1, ref.Ptr(x))))))))
		add("slice-struct", x, sib(f(ref.Slice(ref.Struct(ref.Fld(1, ref.Ptr(x)), ref.Fld(2, L(ref.KNullInt)))))))
	}
	// the intern option changes the codec of string-like fields: presence must be unaffected
	fo := func(t *ref.T) ref.F { return ref.F{Name: "F", Index: 4, Opt: "intern", T: t} }
	add("null-field", L(ref.KNullString), sib(fo(L(ref.KNullString))))
	add("ptr-field", L(ref.KString), sib(fo(ref.Ptr(L(ref.KString)))))
	add("nested", L(ref.KNullString), sib(f(ref.Ptr(ref.Struct(ref.FldO(1, "intern", L(ref.KNullString)), ref.FldO(2, "intern", L(ref.KString)))))))
	add("slice-struct", L(ref.KNullString), sib(f(ref.Slice(ref.Struct(ref.FldO(1, "intern", L(ref.KNullString)), ref.Fld(2, L(ref.KNullInt)))))))
	for _, k := range []ref.Kind{ref.KNullInt, ref.KNullBool, ref.KNullFloat, ref.KNullString, ref.KNullTime} {
		add("null-field", L(k), sib(f(L(k))))
		add("map-null", L(k), sib(f(ref.Map(L(ref.KString), L(k)))))
		add("map-null", L(k), sib(f(ref.Map(L(ref.KInt), L(k)))))
		add("nested", L(k), sib(f(ref.Ptr(ref.Struct(ref.Fld(1, L(k)), ref.Fld(2, ref.Ptr(L(ref.KInt))))))))
	}
	return out
}

func isPresenceType(t *ref.T) bool {
	return t.K == ref.KPtr || (t.K >= ref.KNullInt && t.K <= ref.KNullTime)
}

// checkFlags compares ExplicitPresence flags of struct fields and map values with the type.
func checkFlags(t *ref.T, d plenccodec.Descriptor, path string) string {
	switch t.K {
	case ref.KPtr:
		return checkFlags(t.Elem, d, path+"*")
	case ref.KStruct:
		i := 0
		for _, f := range t.Fields {
			if !f.Encoded() {
				continue
			}
			if i >= len(d.Elements) {
				return path + ": descriptor has too few elements"
			}
			e := d.Elements[i]
			i++
			if e.ExplicitPresence != isPresenceType(f.T) {
				return fmt.Sprintf("%s.%s: ExplicitPresence=%v for field type %s", path, f.Name, e.ExplicitPresence, f.T)
			}
			if s := checkFlags(f.T, e, path+"."+f.Name); s != "" {
				return s
			}
		}
	case ref.KMap:
		if len(d.Elements) != 1 || len(d.Elements[0].Elements) != 2 {
			return path + ": map descriptor shape"
		}
		ve := d.Elements[0].Elements[1]
		if ve.ExplicitPresence != isPresenceType(t.Elem) {
			return fmt.Sprintf("%s{value}: ExplicitPresence=%v for map value type %s", path, ve.ExplicitPresence, t.Elem)
		}
		ke := d.Elements[0].Elements[0]
		if ke.ExplicitPresence != isPresenceType(t.Key) {
			return fmt.Sprintf("%s{key}: ExplicitPresence=%v for map key type %s", path, ke.ExplicitPresence, t.Key)
		}
		return checkFlags(t.Elem, ve, path+"{value}")
	case ref.KSlice:
		if len(d.Elements) == 1 && deref(t.Elem).K == ref.KStruct {
			return checkFlags(t.Elem, d.Elements[0], path+"[]")
		}
	}
	return ""
}

func deref(t *ref.T) *ref.T {
	for t.K == ref.KPtr {
		t = t.Elem
	}
	return t
}

func hasPresent(t *ref.T, v ref.V) bool {
	switch t.K {
	case ref.KPtr:
		return !v.Nil
	case ref.KNullInt, ref.KNullBool, ref.KNullFloat, ref.KNullString, ref.KNullTime:
		return !v.Nil
	case ref.KStruct:
		for i, f := range t.Fields {
			if hasPresent(f.T, v.E[i]) {
				return true
			}
		}
	case ref.KSlice:
		for _, e := range v.E {
			if hasPresent(t.Elem, e) {
				return true
			}
		}
	case ref.KMap:
		for i := 1; i < len(v.E); i += 2 {
			if hasPresent(t.Elem, v.E[i]) {
				return true
			}
		}
	}
	return false
}

var c09Prior = map[*ref.T]ref.V{}

func c09Case(c *mc.Ctx, cfg ref.Cfg, it ref.Item, v ref.V, vs string, undoc string) {
	c.Dim("pos:" + it.Pos)
	pre := fmt.Sprintf("%s|%s|%s|%s", cfg, it.Pos, it.T, undoc)
	c.Guard(pre, func() {
		p := NewPlenc(cfg)
		rv := ref.ToReflect(it.T, v)
		data, err := p.Marshal(nil, rv.Addr().Interface())
		c.Ops(2)
		if err != nil {
			c.Violation(pre+"marshal-error", err.Error())
			return
		}
		if hasPresent(it.T, v) {
			c.NonTrivial()
		}
		out := fresh(it.T)
		if err := p.Unmarshal(data, out.Interface()); err != nil {
			c.Violation(pre+"unmarshal-error", err.Error()+" data="+hx(data))
			return
		}
		got := ref.FromReflect(it.T, out.Elem())
		want := ref.Expect(cfg, it.T, "", v, false)
		if path, detail, differ := ref.Diff(it.T, want, got); differ {
			c.Outcome("presence-mismatch")
			c.Violation(pre+"mismatch:"+path, detail+" data="+hx(data))
			return
		}
		// the same data into a destination that already holds present values everywhere: absent in
		// the data at a presence-carrying map entry means the entry's old value goes, present-but-zero
		// overwrites (the merge rules are C10's; here they are applied to every presence position)
		prior, ok := c09Prior[it.T]
		if !ok {
			vals := ref.Values(it.T, 1)
			prior = vals[len(vals)-1]
			for _, pv := range vals {
				if hasPresent(it.T, pv) && !ref.NestedAbsent(it.T, pv) {
					prior = pv
				}
			}
			c09Prior[it.T] = prior
		}
		if !ref.NestedAbsent(it.T, v) && !ref.NestedAbsent(it.T, prior) {
			c.Dim("reused-destination")
			out2 := fresh(it.T)
			out2.Elem().Set(ref.ToReflect(it.T, prior))
			if err := p.Unmarshal(data, out2.Interface()); err != nil {
				c.Violation(pre+"unmarshal-error-into-populated-destination", err.Error()+" data="+hx(data))
				return
			}
			got2 := ref.FromReflect(it.T, out2.Elem())
			alts := ref.Merge(cfg, it.T, "", prior, v, true)
			match := false
			var firstPath, firstDetail string
			for _, a := range alts {
				path, detail, differ := ref.Diff(it.T, a, got2)
				if !differ {
					match = true
					break
				}
				if firstPath == "" {
					firstPath, firstDetail = path, detail
				}
			}
			if !match {
				c.Violation(pre+"reused-destination-mismatch:"+firstPath, fmt.Sprintf("prior %s, data of %s: %s", ref.Str(it.T, prior), vs, firstDetail))
				return
			}
		}
		// plain siblings: the zero value leaves no tag at all
		if v.E[0].U == 0 && v.E[2].S == "" && !hasPresent(it.T, v) && ref.Omit(it.T.Fields[1].T, v.E[1]) {
			c.Dim("plain-zero-no-tag")
			if len(data) != 0 {
				c.Violation(pre+"zero-plain-fields-not-omitted", "bytes "+hx(data))
				return
			}
		}
		// descriptor flags (once per type is enough, but cheap)
		codec, err := p.CodecForType(it.T.Reflect())
		if err == nil {
			c.Dim("descriptor-flags")
			if s := checkFlags(it.T, codec.Descriptor(), ""); s != "" {
				c.Violation(pre+"descriptor-presence-flag", s)
				return
			}
		}
		c.Outcome("ok")
		if c.WantSample() {
			c.Sample(map[string]string{"cfg": cfg.String(), "type": it.T.String(), "value": vs, "bytes": hx(data)})
		}
	})
}

// c09MapKeyPresence: presence inside a struct used as a MAP KEY, over several entries of one map.
// The decoder re-uses one scratch key for all entries; a key field that is absent (invalid, zero)
// in one entry must read back absent whatever the entry decoded just before it held there. Every
// non-empty subset of four keys {(a,-) (-,b) (a,b) (-,-)} for null-typed, plain and string fields.
func c09MapKeyPresence(c *mc.Ctx) {
	type nk struct {
		A null.Int    `plenc:"1"`
		B null.String `plenc:"2"`
	}
	type ik struct {
		A int `plenc:"1"`
		B int `plenc:"2"`
	}
	type sk struct {
		A string `plenc:"1"`
		B string `plenc:"2"`
	}
	type holder struct {
		N  map[nk]int    `plenc:"1"`
		I  map[ik]string `plenc:"2"`
		S  map[sk]*int   `plenc:"3"`
		NP map[nk]int    `plenc:"4,proto"`
		Z  int           `plenc:"9"`
	}
	if !c.Begin(`{"set":"map-key-presence"}`) {
		return
	}
	c.AddEvals(-1)
	c.Dim("map-key-presence")
	one := 1
	nks := []nk{{A: null.IntFrom(5)}, {B: null.StringFrom("b")}, {A: null.IntFrom(0), B: null.StringFrom("")}, {}}
	iks := []ik{{A: 5}, {B: 6}, {A: 7, B: 8}, {}}
	sks := []sk{{A: "a"}, {B: "b"}, {A: "x", B: "y"}, {}}
	for _, cfg := range []ref.Cfg{{}, {ProtoArrays: true, ProtoTime: true}} {
		for mask := 1; mask < 16; mask++ {
			c.AddEvals(1)
			c.Count("states", 1)
			c.AddNonTrivial(1)
			sig := fmt.Sprintf("%s|map-key-presence|", cfg)
			c.Guard(sig, func() {
				v := holder{N: map[nk]int{}, I: map[ik]string{}, S: map[sk]*int{}, NP: map[nk]int{}, Z: 1}
				for i := 0; i < 4; i++ {
					if mask&(1<<i) != 0 {
						v.N[nks[i]], v.I[iks[i]], v.S[sks[i]], v.NP[nks[i]] = i+1, fmt.Sprint("v", i), &one, i+1
					}
				}
				p := NewPlenc(cfg)
				// several encodings: the entry order of a map varies from call to call
				for try := 0; try < 6; try++ {
					data, err := p.Marshal(nil, &v)
					if err != nil {
						c.Violation(sig+"marshal-error", err.Error())
						return
					}
					var got holder
					if err := p.Unmarshal(data, &got); err != nil {
						c.Violation(sig+"unmarshal-error", err.Error()+" data="+hx(data))
						return
					}
					c.Ops(2)
					if !reflect.DeepEqual(got, v) {
						c.Violation(sig+"key-presence-leaks-between-entries", fmt.Sprintf("keys %04b: put in %s, got out %s data=%s", mask, canon(reflect.ValueOf(v)), canon(reflect.ValueOf(got)), hx(data)))
						return
					}
				}
				c.Outcome("ok")
			})
		}
	}
}
