// Package vatomic mirrors sync/atomic; every operation is a scheduling point
// of verif/sched followed by the real atomic operation.
package vatomic

import (
	"sync/atomic"
	"unsafe"

	"verif/sched"
)


// pa is the scheduling point before an atomic operation; the operation's object is the
// address of the variable (as a number, so that differently typed views of one word agree).
func pa(k string, addr any) {
	p := uintptr((*[2]unsafe.Pointer)(unsafe.Pointer(&addr))[1])
	sched.PointOp("atomic."+k, sched.OpSig{Obj: p, Read: k == "Load" || k == "LoadPointer"}, nil)
}

func LoadInt32(a *int32) int32       { pa("Load", a); return atomic.LoadInt32(a) }
func LoadInt64(a *int64) int64       { pa("Load", a); return atomic.LoadInt64(a) }
func LoadUint32(a *uint32) uint32    { pa("Load", a); return atomic.LoadUint32(a) }
func LoadUint64(a *uint64) uint64    { pa("Load", a); return atomic.LoadUint64(a) }
func LoadUintptr(a *uintptr) uintptr { pa("Load", a); return atomic.LoadUintptr(a) }
func LoadPointer(a *unsafe.Pointer) unsafe.Pointer {
	pa("LoadPointer", a)
	return atomic.LoadPointer(a)
}
func StoreInt32(a *int32, v int32)       { pa("Store", a); atomic.StoreInt32(a, v) }
func StoreInt64(a *int64, v int64)       { pa("Store", a); atomic.StoreInt64(a, v) }
func StoreUint32(a *uint32, v uint32)    { pa("Store", a); atomic.StoreUint32(a, v) }
func StoreUint64(a *uint64, v uint64)    { pa("Store", a); atomic.StoreUint64(a, v) }
func StoreUintptr(a *uintptr, v uintptr) { pa("Store", a); atomic.StoreUintptr(a, v) }
func StorePointer(a *unsafe.Pointer, v unsafe.Pointer) {
	pa("StorePointer", a)
	atomic.StorePointer(a, v)
}
func AddInt32(a *int32, d int32) int32          { pa("Add", a); return atomic.AddInt32(a, d) }
func AddInt64(a *int64, d int64) int64          { pa("Add", a); return atomic.AddInt64(a, d) }
func AddUint32(a *uint32, d uint32) uint32      { pa("Add", a); return atomic.AddUint32(a, d) }
func AddUint64(a *uint64, d uint64) uint64      { pa("Add", a); return atomic.AddUint64(a, d) }
func AddUintptr(a *uintptr, d uintptr) uintptr  { pa("Add", a); return atomic.AddUintptr(a, d) }
func SwapInt32(a *int32, v int32) int32         { pa("Swap", a); return atomic.SwapInt32(a, v) }
func SwapInt64(a *int64, v int64) int64         { pa("Swap", a); return atomic.SwapInt64(a, v) }
func SwapUint32(a *uint32, v uint32) uint32     { pa("Swap", a); return atomic.SwapUint32(a, v) }
func SwapUint64(a *uint64, v uint64) uint64     { pa("Swap", a); return atomic.SwapUint64(a, v) }
func SwapUintptr(a *uintptr, v uintptr) uintptr { pa("Swap", a); return atomic.SwapUintptr(a, v) }
func SwapPointer(a *unsafe.Pointer, v unsafe.Pointer) unsafe.Pointer {
	pa("SwapPointer", a)
	return atomic.SwapPointer(a, v)
}
func CompareAndSwapInt32(a *int32, o, n int32) bool {
	pa("CAS", a)
	return atomic.CompareAndSwapInt32(a, o, n)
}
func CompareAndSwapInt64(a *int64, o, n int64) bool {
	pa("CAS", a)
	return atomic.CompareAndSwapInt64(a, o, n)
}
func CompareAndSwapUint32(a *uint32, o, n uint32) bool {
	pa("CAS", a)
	return atomic.CompareAndSwapUint32(a, o, n)
}
func CompareAndSwapUint64(a *uint64, o, n uint64) bool {
	pa("CAS", a)
	return atomic.CompareAndSwapUint64(a, o, n)
}
func CompareAndSwapUintptr(a *uintptr, o, n uintptr) bool {
	pa("CAS", a)
	return atomic.CompareAndSwapUintptr(a, o, n)
}
func CompareAndSwapPointer(a *unsafe.Pointer, o, n unsafe.Pointer) bool {
	pa("CASPointer", a)
	return atomic.CompareAndSwapPointer(a, o, n)
}
func AndInt32(a *int32, m int32) int32         { pa("And", a); return atomic.AndInt32(a, m) }
func AndUint32(a *uint32, m uint32) uint32     { pa("And", a); return atomic.AndUint32(a, m) }
func AndInt64(a *int64, m int64) int64         { pa("And", a); return atomic.AndInt64(a, m) }
func AndUint64(a *uint64, m uint64) uint64     { pa("And", a); return atomic.AndUint64(a, m) }
func AndUintptr(a *uintptr, m uintptr) uintptr { pa("And", a); return atomic.AndUintptr(a, m) }
func OrInt32(a *int32, m int32) int32          { pa("Or", a); return atomic.OrInt32(a, m) }
func OrUint32(a *uint32, m uint32) uint32      { pa("Or", a); return atomic.OrUint32(a, m) }
func OrInt64(a *int64, m int64) int64          { pa("Or", a); return atomic.OrInt64(a, m) }
func OrUint64(a *uint64, m uint64) uint64      { pa("Or", a); return atomic.OrUint64(a, m) }
func OrUintptr(a *uintptr, m uintptr) uintptr  { pa("Or", a); return atomic.OrUintptr(a, m) }

type Int32 struct{ v atomic.Int32 }

func (x *Int32) Load() int32                    { pa("Load", x); return x.v.Load() }
func (x *Int32) Store(v int32)                  { pa("Store", x); x.v.Store(v) }
func (x *Int32) Swap(v int32) int32             { pa("Swap", x); return x.v.Swap(v) }
func (x *Int32) CompareAndSwap(o, n int32) bool { pa("CAS", x); return x.v.CompareAndSwap(o, n) }
func (x *Int32) Add(d int32) int32              { pa("Add", x); return x.v.Add(d) }
func (x *Int32) And(m int32) int32              { pa("And", x); return x.v.And(m) }
func (x *Int32) Or(m int32) int32               { pa("Or", x); return x.v.Or(m) }

type Int64 struct{ v atomic.Int64 }

func (x *Int64) Load() int64                    { pa("Load", x); return x.v.Load() }
func (x *Int64) Store(v int64)                  { pa("Store", x); x.v.Store(v) }
func (x *Int64) Swap(v int64) int64             { pa("Swap", x); return x.v.Swap(v) }
func (x *Int64) CompareAndSwap(o, n int64) bool { pa("CAS", x); return x.v.CompareAndSwap(o, n) }
func (x *Int64) Add(d int64) int64              { pa("Add", x); return x.v.Add(d) }
func (x *Int64) And(m int64) int64              { pa("And", x); return x.v.And(m) }
func (x *Int64) Or(m int64) int64               { pa("Or", x); return x.v.Or(m) }

type Uint32 struct{ v atomic.Uint32 }

func (x *Uint32) Load() uint32                    { pa("Load", x); return x.v.Load() }
func (x *Uint32) Store(v uint32)                  { pa("Store", x); x.v.Store(v) }
func (x *Uint32) Swap(v uint32) uint32            { pa("Swap", x); return x.v.Swap(v) }
func (x *Uint32) CompareAndSwap(o, n uint32) bool { pa("CAS", x); return x.v.CompareAndSwap(o, n) }
func (x *Uint32) Add(d uint32) uint32             { pa("Add", x); return x.v.Add(d) }
func (x *Uint32) And(m uint32) uint32             { pa("And", x); return x.v.And(m) }
func (x *Uint32) Or(m uint32) uint32              { pa("Or", x); return x.v.Or(m) }

type Uint64 struct{ v atomic.Uint64 }

func (x *Uint64) Load() uint64                    { pa("Load", x); return x.v.Load() }
func (x *Uint64) Store(v uint64)                  { pa("Store", x); x.v.Store(v) }
func (x *Uint64) Swap(v uint64) uint64            { pa("Swap", x); return x.v.Swap(v) }
func (x *Uint64) CompareAndSwap(o, n uint64) bool { pa("CAS", x); return x.v.CompareAndSwap(o, n) }
func (x *Uint64) Add(d uint64) uint64             { pa("Add", x); return x.v.Add(d) }
func (x *Uint64) And(m uint64) uint64             { pa("And", x); return x.v.And(m) }
func (x *Uint64) Or(m uint64) uint64              { pa("Or", x); return x.v.Or(m) }

type Uintptr struct{ v atomic.Uintptr }

func (x *Uintptr) Load() uintptr                    { pa("Load", x); return x.v.Load() }
func (x *Uintptr) Store(v uintptr)                  { pa("Store", x); x.v.Store(v) }
func (x *Uintptr) Swap(v uintptr) uintptr           { pa("Swap", x); return x.v.Swap(v) }
func (x *Uintptr) CompareAndSwap(o, n uintptr) bool { pa("CAS", x); return x.v.CompareAndSwap(o, n) }
func (x *Uintptr) Add(d uintptr) uintptr            { pa("Add", x); return x.v.Add(d) }

type Bool struct{ v atomic.Bool }

func (x *Bool) Load() bool                    { pa("Load", x); return x.v.Load() }
func (x *Bool) Store(v bool)                  { pa("Store", x); x.v.Store(v) }
func (x *Bool) Swap(v bool) bool              { pa("Swap", x); return x.v.Swap(v) }
func (x *Bool) CompareAndSwap(o, n bool) bool { pa("CAS", x); return x.v.CompareAndSwap(o, n) }

type Pointer[T any] struct{ v atomic.Pointer[T] }

func (x *Pointer[T]) Load() *T     { pa("LoadPointer", x); return x.v.Load() }
func (x *Pointer[T]) Store(v *T)   { pa("StorePointer", x); x.v.Store(v) }
func (x *Pointer[T]) Swap(v *T) *T { pa("SwapPointer", x); return x.v.Swap(v) }
func (x *Pointer[T]) CompareAndSwap(o, n *T) bool {
	pa("CASPointer", x)
	return x.v.CompareAndSwap(o, n)
}

type Value struct{ v atomic.Value }

func (x *Value) Load() any                    { pa("Load", x); return x.v.Load() }
func (x *Value) Store(v any)                  { pa("Store", x); x.v.Store(v) }
func (x *Value) Swap(v any) any               { pa("Swap", x); return x.v.Swap(v) }
func (x *Value) CompareAndSwap(o, n any) bool { pa("CAS", x); return x.v.CompareAndSwap(o, n) }
