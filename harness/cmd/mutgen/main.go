// mutgen enumerates single-point mutants of the plenc sources (every site of a fixed list of
// operators, in file order - nothing is sampled) as JSON lines: file, byte offsets, replacement.
// It is the generator of tools/mutant_sweep.py, the machine-made counterpart of the hand-made
// seeded changes: a mutant that compiles, passes the pinned suite and is silent under the
// checks is either equivalent, outside the listed properties, or a gap in a check.
package main

import (
	"encoding/json"
	"fmt"
	"go/ast"
	"go/parser"
	"go/token"
	"os"
	"path/filepath"
	"sort"
	"strconv"
	"strings"
)

type mutant struct {
	ID   int    `json:"id"`
	File string `json:"file"`
	Line int    `json:"line"`
	Off  int    `json:"off"`
	End  int    `json:"end"`
	New  string `json:"new"`
	Op   string `json:"op"`
	Old  string `json:"old"`
}

var swap = map[token.Token][]string{
	token.LSS: {"<="}, token.LEQ: {"<"}, token.GTR: {">="}, token.GEQ: {">"},
	token.EQL: {"!="}, token.NEQ: {"=="},
	token.LAND: {"||"}, token.LOR: {"&&"},
	token.ADD: {"-"}, token.SUB: {"+"}, token.MUL: {"/"}, token.QUO: {"*"},
	token.SHL: {">>"}, token.SHR: {"<<"}, token.AND: {"|"}, token.OR: {"&"},
}

func main() {
	root := os.Args[1]
	var files []string
	for _, g := range []string{"*.go", "plenccodec/*.go", "plenccore/*.go", "null/*.go", "cmd/plenctag/*.go"} {
		m, _ := filepath.Glob(filepath.Join(root, g))
		files = append(files, m...)
	}
	sort.Strings(files)
	var out []mutant
	for _, f := range files {
		base := filepath.Base(f)
		if strings.HasSuffix(base, "_test.go") || base == "fieldtype_string.go" || base == "doc.go" || base == "test.go" {
			continue
		}
		src, err := os.ReadFile(f)
		if err != nil {
			panic(err)
		}
		fset := token.NewFileSet()
		af, err := parser.ParseFile(fset, f, src, 0)
		if err != nil {
			panic(err)
		}
		rel, _ := filepath.Rel(root, f)
		add := func(pos, end token.Pos, repl, op string) {
			o, e := fset.Position(pos).Offset, fset.Position(end).Offset
			out = append(out, mutant{File: rel, Line: fset.Position(pos).Line, Off: o, End: e, New: repl, Op: op, Old: string(src[o:e])})
		}
		ast.Inspect(af, func(n ast.Node) bool {
			switch x := n.(type) {
			case *ast.CallExpr:
				// leave the text of error messages and panics alone
				if s, ok := x.Fun.(*ast.SelectorExpr); ok {
					if id, ok := s.X.(*ast.Ident); ok && id.Name == "fmt" {
						return false
					}
				}
				if id, ok := x.Fun.(*ast.Ident); ok && id.Name == "panic" {
					return false
				}
			case *ast.BinaryExpr:
				for _, r := range swap[x.Op] {
					add(x.OpPos, x.OpPos+token.Pos(len(x.Op.String())), r, "binop")
				}
			case *ast.BasicLit:
				if x.Kind == token.INT {
					if v, err := strconv.ParseInt(x.Value, 0, 64); err == nil {
						add(x.Pos(), x.End(), strconv.FormatInt(v+1, 10), "int+1")
						if v > 0 {
							add(x.Pos(), x.End(), strconv.FormatInt(v-1, 10), "int-1")
						}
					}
				}
			case *ast.Ident:
				if x.Name == "true" {
					add(x.Pos(), x.End(), "false", "bool")
				} else if x.Name == "false" {
					add(x.Pos(), x.End(), "true", "bool")
				}
			case *ast.IncDecStmt:
				if x.Tok == token.INC {
					add(x.TokPos, x.TokPos+2, "--", "incdec")
				} else {
					add(x.TokPos, x.TokPos+2, "++", "incdec")
				}
			case *ast.AssignStmt:
				switch x.Tok {
				case token.ADD_ASSIGN:
					add(x.TokPos, x.TokPos+2, "-=", "opassign")
				case token.SUB_ASSIGN:
					add(x.TokPos, x.TokPos+2, "+=", "opassign")
				case token.ASSIGN:
					// delete the assignment (keeps operands "used": assign to themselves is not valid for
					// all forms, so blank it with the same right-hand sides)
					var blanks []string
					for range x.Lhs {
						blanks = append(blanks, "_")
					}
					add(x.Lhs[0].Pos(), x.Lhs[len(x.Lhs)-1].End(), strings.Join(blanks, ", "), "drop-assign")
				}
			case *ast.IfStmt:
				add(x.Cond.Pos(), x.Cond.End(), "!("+string(src[fset.Position(x.Cond.Pos()).Offset:fset.Position(x.Cond.End()).Offset])+")", "negate-if")
			case *ast.ExprStmt:
				if _, ok := x.X.(*ast.CallExpr); ok {
					add(x.Pos(), x.End(), "{}", "drop-call")
				}
			case *ast.ReturnStmt:
				_ = x
			}
			return true
		})
	}
	sort.SliceStable(out, func(i, j int) bool {
		if out[i].File != out[j].File {
			return out[i].File < out[j].File
		}
		return out[i].Off < out[j].Off
	})
	enc := json.NewEncoder(os.Stdout)
	for i := range out {
		out[i].ID = i
		enc.Encode(out[i])
	}
	fmt.Fprintln(os.Stderr, len(out), "mutants")
}
