#!/bin/sh
# usage: with_revert.sh <commit>[,<commit>...] <command...>
# Temporarily un-applies fix commits in /repo's working tree, runs the command, restores.
commits=$1; shift
cd /repo || exit 2
[ -z "$(git status --porcelain)" ] || { echo "repo not clean"; exit 2; }
for c in $(echo $commits | tr ',' ' '); do
	git diff $c~1 $c | git apply -R || { git checkout -- .; echo "cannot revert $c"; exit 2; }
done
cd /verif
"$@"
rc=$?
git -C /repo checkout -- .
exit $rc
