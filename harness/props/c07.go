package props

import (
	"fmt"
	plencnull "github.com/philpearl/plenc/null"
	"github.com/philpearl/plenc/plenccodec"
	"github.com/unravelin/null"
	"math"
	"os"
	"reflect"
	"sort"
	"strings"
	stdsync "sync"
	"time"

	"github.com/philpearl/plenc"

	"verif/gen"
	"verif/mc"
	"verif/ref"
	"verif/sched"
)

func init() {
	register(&mc.Prop{
		ID: "C07",
		Rule: "each scenario = 2-3 real goroutines running Marshal/Unmarshal/CodecForType on one fresh Plenc instance under the cooperative scheduler; every interleaving at every sync/atomic operation is executed " +
			"(2 threads: all interleavings; 3 threads: iterative preemption bound), sync.Pool reuse-vs-fresh explored as an environment choice; oracle: each result equals the same operation run alone on a fresh instance, " +
			"no panic, no deadlock, and a sequential probe battery on the instance afterwards equals a fresh instance. evaluations = executions (schedules); distinct_nontrivial = distinct schedules with at least one preemption",
		Assumptions: []string{"the scheduler is sequentially consistent and switches only at sync / sync/atomic operations (instrumented through a generated import overlay of the current /repo sources)",
			"unsynchronised accesses between those points are covered by the separate free-running -race pass (E5), which is not part of the exhaustive claim"},
		Workers: func(string) int { return 16 },
		Work:    c07Work,
		Aux:     raceAux("C07"),
		Sub:     map[string]func([]string) int{"racepass-C07": racePassSub(c07Scenarios)},
		Post: func(a *mc.Agg) []string {
			return needDims(a, "scenario:recursive", "scenario:mutual", "scenario:nested", "scenario:intern", "scenario:pool", "scenario:failing-build", "threads:2", "threads:3")
		},
	})
}

// cop is one operation a thread performs; it returns an observation string.
type cop struct {
	name string
	run  func(p *plenc.Plenc) string
}

func obsErr(err error) string {
	if err != nil {
		return "error"
	}
	return "ok"
}

func opMarshal(name string, v any) cop {
	return cop{"Marshal(" + name + ")", func(p *plenc.Plenc) string {
		b, err := p.Marshal(nil, v)
		if err != nil {
			return "error"
		}
		return "bytes:" + hx(b)
	}}
}

func opUnmarshal(name string, data []byte, mk func() any) cop {
	return cop{"Unmarshal(" + name + ")", func(p *plenc.Plenc) string {
		out := mk()
		if err := p.Unmarshal(data, out); err != nil {
			return "error"
		}
		return "value:" + canon(reflect.ValueOf(out))
	}}
}

func opCodec(name string, t reflect.Type) cop {
	return cop{"CodecForType(" + name + ")", func(p *plenc.Plenc) string {
		c, err := p.CodecForType(t)
		if err != nil {
			return "error"
		}
		seenMu.Lock()
		seenCodecs = append(seenCodecs, seenCodec{p, t, c})
		seenMu.Unlock()
		return fmt.Sprintf("codec:wt%d", c.WireType())
	}}
}

// seenCodecs records what every CodecForType call of the current execution returned: run
// alone, repeated calls for one type on one instance return one and the same codec object, so
// concurrent calls (and calls made after they have settled) must too.
type seenCodec struct {
	p *plenc.Plenc
	t reflect.Type
	c plenccodec.Codec
}

// identityHolds reports whether, run alone, two successive CodecForType calls for t on one fresh
// instance return the same object (decided once per type): only then is identity part of
// "what the call returns when run alone".
var identityCache = map[reflect.Type]bool{}

func identityHolds(t reflect.Type) bool {
	if v, ok := identityCache[t]; ok {
		return v
	}
	ok := false
	func() {
		defer func() { recover() }()
		var a, b plenccodec.Codec
		sched.Suspend(func() {
			p := NewPlenc(ref.Cfg{})
			a, _ = p.CodecForType(t)
			b, _ = p.CodecForType(t)
		})
		if a != nil && b != nil {
			same, cmp := sameCodec(a, b)
			ok = same && cmp
		}
	}()
	identityCache[t] = ok
	return ok
}

var seenCodecs []seenCodec
var seenMu stdsync.Mutex // the free-running race pass calls the same operations from real goroutines

func sameCodec(a, b plenccodec.Codec) (same, comparable bool) {
	defer func() {
		if recover() != nil {
			same, comparable = true, false
		}
	}()
	return a == b, true
}

// codecIdentity checks the recorded codecs of the finished execution against one another and
// against what the instance hands out now.
func codecIdentity() (sig, detail string) {
	for i, a := range seenCodecs {
		if !identityHolds(a.t) {
			continue
		}
		now, err := a.p.CodecForType(a.t)
		if err != nil {
			return "codec-identity:later-call-fails", fmt.Sprintf("CodecForType(%s) returned a codec during the run and %v afterwards", a.t, err)
		}
		if same, ok := sameCodec(a.c, now); ok && !same {
			return "codec-identity:concurrent-call-got-a-codec-the-instance-does-not-keep:" + a.t.String(),
				fmt.Sprintf("CodecForType(%s) returned %T %p during the run, the instance now returns %p", a.t, a.c, a.c, now)
		}
		for _, b := range seenCodecs[i+1:] {
			if a.p == b.p && a.t == b.t {
				if same, ok := sameCodec(a.c, b.c); ok && !same {
					return "codec-identity:two-calls-got-different-codecs:" + a.t.String(), fmt.Sprintf("CodecForType(%s) returned two different codec objects to concurrent callers", a.t)
				}
			}
		}
	}
	return "", ""
}

var pkgNullOnce stdsync.Once

type scenario struct {
	name    string
	family  string
	threads [][]cop // per thread: sequence of operations
	probe   []cop   // post-quiescence sequential battery
	bound   int     // <0 unbounded
	yields  bool    // method-granularity yield points on (steady-state scenarios)
	warm    []cop   // run once on the instance before the threads start (scheduler off)
	cfg     ref.Cfg // configuration of the instance
}

func mustMarshal(v any) []byte {
	p := NewPlenc(ref.Cfg{})
	b, err := p.Marshal(nil, v)
	if err != nil {
		panic(err)
	}
	return b
}

func c07Scenarios(tier string) []scenario {
	var out []scenario
	rv := gen.R{A: []gen.R{{B: 1, C: "x"}, {A: []gen.R{{B: 2}}}}, B: 3, C: "top"}
	rs := []gen.R{rv, {B: 9}}
	xr := gen.XR{X: rs, N: 4}
	rData, rsData := mustMarshal(&rv), mustMarshal(&rs)
	recOps := []cop{
		opCodec("R", reflect.TypeOf(gen.R{})),
		opMarshal("&R", &rv),
		opUnmarshal("R", rData, func() any { return &gen.R{} }),
		opMarshal("&[]R", &rs),
		opCodec("XR", reflect.TypeOf(gen.XR{})),
		opUnmarshal("[]R", rsData, func() any { return &[]gen.R{} }),
	}
	recProbe := []cop{opMarshal("&R", &rv), opMarshal("&[]R", &rs), opMarshal("&XR", &xr), opUnmarshal("R", rData, func() any { return &gen.R{} }),
		opUnmarshal("[]R", rsData, func() any { return &[]gen.R{} })}
	for i := range recOps {
		for j := i; j < len(recOps); j++ {
			out = append(out, scenario{name: fmt.Sprintf("S1 recursive: %s || %s", recOps[i].name, recOps[j].name), family: "recursive",
				threads: [][]cop{{recOps[i]}, {recOps[j]}}, probe: recProbe, bound: -1})
		}
	}
	// S2 mutual recursion, pointer recursion, map recursion
	a1 := gen.A1{B: &gen.B1{A: []gen.A1{{X: 1}, {B: &gen.B1{Y: "deep"}}}, Y: "y"}, X: 5}
	b1 := gen.B1{A: []gen.A1{a1}, Y: "b"}
	a1Data := mustMarshal(&a1)
	mutOps := []cop{opMarshal("&A1", &a1), opMarshal("&B1", &b1), opUnmarshal("A1", a1Data, func() any { return &gen.A1{} }), opCodec("B1", reflect.TypeOf(gen.B1{})),
		opMarshal("&[]A1", &[]gen.A1{a1})}
	mutProbe := []cop{mutOps[0], mutOps[1], mutOps[2], mutOps[4]}
	for i := range mutOps {
		for j := i; j < len(mutOps); j++ {
			out = append(out, scenario{name: fmt.Sprintf("S2 mutual: %s || %s", mutOps[i].name, mutOps[j].name), family: "mutual",
				threads: [][]cop{{mutOps[i]}, {mutOps[j]}}, probe: mutProbe, bound: -1})
		}
	}
	pv := gen.P{Next: &gen.P{Next: &gen.P{V: 3}, V: 2}, V: 1}
	mv := gen.M{Kids: map[string]gen.M{"k": {V: 2, Kids: map[string]gen.M{"kk": {V: 3}}}}, V: 1}
	pmOps := []cop{opMarshal("&P", &pv), opUnmarshal("P", mustMarshal(&pv), func() any { return &gen.P{} }), opMarshal("&M", &mv),
		opUnmarshal("M", mustMarshal(&mv), func() any { return &gen.M{} }), opMarshal("&[]P", &[]gen.P{pv})}
	for i := range pmOps {
		for j := i; j < len(pmOps); j++ {
			out = append(out, scenario{name: fmt.Sprintf("S2 ptr/map recursion: %s || %s", pmOps[i].name, pmOps[j].name), family: "mutual",
				threads: [][]cop{{pmOps[i]}, {pmOps[j]}}, probe: pmOps, bound: -1})
		}
	}
	// S3 nested, non-recursive
	in := gen.In{A: 1, B: "b", F: 1.5}
	tv := gen.T{In: in, S: []gen.In{in, {}}, M: map[string]gen.In{"k": in}}
	nestOps := []cop{opMarshal("&T", &tv), opMarshal("&In", &in), opUnmarshal("[]In", mustMarshal(&[]gen.In{in, in}), func() any { return &[]gen.In{} }),
		opUnmarshal("T", mustMarshal(&tv), func() any { return &gen.T{} }), opCodec("map[string]In", reflect.TypeOf(map[string]gen.In{}))}
	for i := range nestOps {
		for j := i; j < len(nestOps); j++ {
			out = append(out, scenario{name: fmt.Sprintf("S3 nested: %s || %s", nestOps[i].name, nestOps[j].name), family: "nested",
				threads: [][]cop{{nestOps[i]}, {nestOps[j]}}, probe: nestOps, bound: -1})
		}
	}
	// S4 three threads on the recursive family, preemption bounded
	b3 := 2
	if tier == "thorough" {
		b3 = 3
	}
	for _, tri := range [][3]int{{1, 3, 2}, {0, 3, 4}, {3, 3, 1}, {2, 5, 3}} {
		out = append(out, scenario{name: fmt.Sprintf("S4 recursive x3: %s || %s || %s", recOps[tri[0]].name, recOps[tri[1]].name, recOps[tri[2]].name), family: "recursive",
			threads: [][]cop{{recOps[tri[0]]}, {recOps[tri[1]]}, {recOps[tri[2]]}}, probe: recProbe, bound: b3})
	}
	// S5 interning: decoders sharing two intern tables, new / repeated / empty values
	iv := func(a, b string) cop {
		d := mustMarshal(&gen.Intern{A: a, B: b, C: a + b})
		return opUnmarshal(fmt.Sprintf("Intern{%q,%q}", a, b), d, func() any { return &gen.Intern{} })
	}
	internProbe := []cop{iv("x", "y"), iv("", "x"), iv("new", "x")}
	for _, pair := range [][2][]cop{
		{{iv("x", "y")}, {iv("x", "y")}},
		{{iv("x", "y")}, {iv("y", "x")}},
		{{iv("x", "")}, {iv("z", "x")}},
		{{iv("x", "y"), iv("x", "z")}, {iv("w", "y")}},
		{{iv("x", "x"), iv("y", "y")}, {iv("y", "y"), iv("x", "x")}},
	} {
		out = append(out, scenario{name: "S5 intern: " + copNames(pair[0]) + " || " + copNames(pair[1]), family: "intern",
			threads: [][]cop{pair[0], pair[1]}, probe: internProbe, bound: -1})
	}
	out = append(out, scenario{name: "S5 intern x3", family: "intern",
		threads: [][]cop{{iv("x", "y")}, {iv("y", "x")}, {iv("x", "x")}}, probe: internProbe, bound: b3 + 1})
	// S6 pooled scratch keys of map decoding
	mk1 := gen.MK{M: map[gen.K]string{{A: 1, B: 2}: "a"}}
	mk2 := gen.MK{M: map[gen.K]string{{A: 0, B: 0}: "z"}}
	mk3 := gen.MK{M: map[gen.K]string{{A: 5, B: 0}: "h"}}
	mkOp := func(n string, v *gen.MK) cop { return opUnmarshal(n, mustMarshal(v), func() any { return &gen.MK{} }) }
	poolProbe := []cop{mkOp("MK1", &mk1), mkOp("MK2", &mk2), mkOp("MK3", &mk3)}
	for _, pair := range [][2][]cop{
		{{mkOp("MK1", &mk1)}, {mkOp("MK2", &mk2)}},
		{{mkOp("MK1", &mk1), mkOp("MK3", &mk3)}, {mkOp("MK2", &mk2)}},
		{{mkOp("MK1", &mk1), mkOp("MK2", &mk2)}, {mkOp("MK1", &mk1), mkOp("MK3", &mk3)}},
	} {
		out = append(out, scenario{name: "S6 pool: " + copNames(pair[0]) + " || " + copNames(pair[1]), family: "pool",
			threads: [][]cop{pair[0], pair[1]}, probe: poolProbe, bound: -1})
	}
	// S8 steady state with method-granularity yield points: codecs are built beforehand, the
	// threads use them on different values; any per-call state a codec keeps in itself (rather
	// than on the stack or in a pool) shows up as a wrong result under one preemption.
	one, two := 1, 2
	evA := gen.Every{I: -5, IF: 1 << 40, U: 7, F: 1.5, F32: -2.5, B: true, S: "sa", SI: "ia", By: []byte{1, 2}, T: time.Unix(1600000000, 5).UTC(), PI: &one, PS: &gen.In{A: 1, B: "pa"},
		In: gen.In{A: 2, B: "na", F: 3}, LI: []int{1, -2, 300}, LF: []float64{1, 2}, LS: []string{"a", "", "c"}, LSP: []string{"pa", "pb"}, LIn: []gen.In{{A: 1}, {B: "x"}}, LP: []*gen.In{{A: 4}, {B: "y"}},
		MSI: map[string]int{"ka": 1}, MK: map[gen.K]string{{A: 1, B: 2}: "va"}, MP: map[string]string{"pk": "pv"}, MKP: map[gen.K]*gen.In{{A: 3, B: 4}: {A: 9}},
		NS: null.StringFrom("nsa"), NI: null.IntFrom(4), NT: null.TimeFrom(time.Unix(5, 0).UTC()), NSI: null.StringFrom("nia")}
	evB := gen.Every{I: 9, IF: -3, U: 1 << 31, F: -0.25, F32: 8, S: "sb-longer-string", SI: "ib", By: []byte{9}, T: time.Unix(-5, 999).UTC(), PI: &two, PS: &gen.In{F: 2},
		In: gen.In{B: "nb"}, LI: []int{7}, LF: []float64{-1, 0, 3.5}, LS: []string{"zz"}, LSP: []string{"", "q", "r"}, LIn: []gen.In{{F: 1}}, LP: []*gen.In{{A: 5}},
		MSI: map[string]int{"kb": 2}, MK: map[gen.K]string{{A: 7}: "vb"}, MP: map[string]string{"": "e"}, MKP: map[gen.K]*gen.In{{B: 6}: {B: "w"}},
		NS: null.StringFrom(""), NI: null.IntFrom(0), NSI: null.StringFrom("nib")}
	evAData, evBData := mustMarshal(&evA), mustMarshal(&evB)
	uA := opUnmarshal("EveryA", evAData, func() any { return &gen.Every{} })
	uB := opUnmarshal("EveryB", evBData, func() any { return &gen.Every{} })
	mA, mB := opMarshal("&EveryA", &evA), opMarshal("&EveryB", &evB)
	mkp1 := gen.MKP{M: map[gen.K]string{{A: 1, B: 2}: "a"}}
	mkp2 := gen.MKP{M: map[gen.K]string{{A: 7, B: 0}: "z"}}
	mkpOp := func(n string, v *gen.MKP) cop {
		return opUnmarshal(n, mustMarshal(v), func() any { return &gen.MKP{} })
	}
	p1, p2 := mkpOp("MKP1", &mkp1), mkpOp("MKP2", &mkp2)
	yb, ybSmall := 1, 2
	if tier == "thorough" {
		yb, ybSmall = 2, 3
	}
	steady := func(name string, cfg ref.Cfg, bound int, warm []cop, ths ...[]cop) {
		out = append(out, scenario{name: "S8 steady: " + name, family: "steady", threads: ths, probe: warm, bound: bound, yields: true, warm: warm, cfg: cfg})
	}
	evWarm := []cop{uA, uB, mA, mB}
	steady("Unmarshal(EveryA) || Unmarshal(EveryB)", ref.Cfg{}, yb, evWarm, []cop{uA}, []cop{uB})
	steady("Marshal(&EveryA) || Marshal(&EveryB)", ref.Cfg{}, yb, evWarm, []cop{mA}, []cop{mB})
	steady("Unmarshal(EveryA) || Marshal(&EveryB)", ref.Cfg{}, yb, evWarm, []cop{uA}, []cop{mB})
	steady("first use: Unmarshal(EveryA) || Unmarshal(EveryB)", ref.Cfg{}, yb, nil, []cop{uA}, []cop{uB})
	steady("proto config: Unmarshal(EveryA) || Unmarshal(EveryB)", ref.Cfg{ProtoArrays: true, ProtoTime: true}, yb, evWarm, []cop{uA}, []cop{uB})
	steady("proto config: Marshal(&EveryA) || Unmarshal(EveryB)", ref.Cfg{ProtoArrays: true, ProtoTime: true}, yb, evWarm, []cop{mA}, []cop{uB})
	steady("MKP1 || MKP2", ref.Cfg{}, ybSmall, []cop{p1, p2}, []cop{p1}, []cop{p2})
	steady("MK1 || MK2", ref.Cfg{}, ybSmall, poolProbe, []cop{mkOp("MK1", &mk1)}, []cop{mkOp("MK2", &mk2)})
	steady("MKP1; MKP2 || MKP2; MKP1", ref.Cfg{}, yb, []cop{p1, p2}, []cop{p1, p2}, []cop{p2, p1})
	steady("Intern{x,y} || Intern{y,z}", ref.Cfg{}, ybSmall, internProbe, []cop{iv("x", "y")}, []cop{iv("y", "z")})
	// the package-level default instance through the package functions. It cannot be made fresh
	// per execution, so only its steady state is explored (codecs built by the warm-up).
	pkgU := func(name string, data []byte) cop {
		return cop{"plenc.Unmarshal(" + name + ")", func(*plenc.Plenc) string {
			out := &gen.Every{}
			if err := plenc.Unmarshal(data, out); err != nil {
				return "error"
			}
			return "value:" + canon(reflect.ValueOf(out))
		}}
	}
	pkgM := func(name string, v any) cop {
		return cop{"plenc.Marshal(" + name + ")", func(*plenc.Plenc) string {
			b, err := plenc.Marshal(nil, v)
			return "bytes:" + hx(b) + obsErr(err)
		}}
	}
	pkgWarm := []cop{{"register null codecs on the default", func(*plenc.Plenc) string { pkgNullOnce.Do(plencnull.RegisterCodecs); return "" }},
		pkgU("EveryA", evAData), pkgU("EveryB", evBData), pkgM("&EveryA", &evA)}
	steady("package default: Unmarshal(EveryA) || Unmarshal(EveryB)", ref.Cfg{}, yb, pkgWarm, []cop{pkgU("EveryA", evAData)}, []cop{pkgU("EveryB", evBData)})
	steady("package default: Marshal(&EveryA) || Unmarshal(EveryB)", ref.Cfg{}, yb, pkgWarm, []cop{pkgM("&EveryA", &evA)}, []cop{pkgU("EveryB", evBData)})
	// S7 a recursive type whose build fails, concurrently with users of its slice type
	bad := []gen.RBad{{}, {A: []gen.RBad{{}}}}
	dup := []gen.RDup{{B: 1}, {A: []gen.RDup{{C: 2}}}}
	failOps := []cop{opCodec("RBad", reflect.TypeOf(gen.RBad{})), opMarshal("&[]RBad", &bad), opCodec("[]RBad", reflect.TypeOf([]gen.RBad{})),
		opCodec("RDup", reflect.TypeOf(gen.RDup{})), opMarshal("&[]RDup", &dup)}
	for _, pr := range [][2]int{{0, 1}, {0, 2}, {1, 1}, {0, 0}, {3, 4}, {4, 4}} {
		out = append(out, scenario{name: fmt.Sprintf("S7 failing build: %s || %s", failOps[pr[0]].name, failOps[pr[1]].name), family: "failing-build",
			threads: [][]cop{{failOps[pr[0]]}, {failOps[pr[1]]}}, probe: failOps, bound: -1})
	}
	return out
}

func copNames(ops []cop) string {
	var s []string
	for _, o := range ops {
		s = append(s, o.name)
	}
	return strings.Join(s, "; ")
}

// seqSpec runs every operation alone on its own fresh instance.
func seqSpec(ops []cop) []string { return seqSpecCfg(ref.Cfg{}, ops) }

func seqSpecCfg(cfg ref.Cfg, ops []cop) []string {
	out := make([]string, len(ops))
	for i, o := range ops {
		func() {
			defer func() {
				if r := recover(); r != nil {
					out[i] = "panic"
				}
			}()
			out[i] = o.run(NewPlenc(cfg))
		}()
	}
	return out
}

func c07Work(c *mc.Ctx) {
	// the overlay must be active: a codec build has to hit scheduling points
	probe := sched.Run([]func(){func() { NewPlenc(ref.Cfg{}).CodecForType(reflect.TypeOf(gen.In{})) }}, nil, false)
	if len(probe.Points) < 3 {
		c.MachineErr("the sync/atomic overlay is not active in this build: no scheduling points were hit")
		return
	}
	if c.Owns(0) {
		e3SelfTest(c)
	}
	for si, sc := range c07Scenarios(c.Tier) {
		if !c.Owns(si + 1) {
			continue
		}
		runScenario(c, "C07", sc)
	}
}

func runScenario(c *mc.Ctx, prop string, sc scenario) {
	// debugging aid: VERIF_SCENARIO=<substring> runs only the matching scenarios and reports their sizes
	if f := os.Getenv("VERIF_SCENARIO"); f != "" && !strings.Contains(sc.name, f) {
		return
	}
	if !c.Begin(fmt.Sprintf(`{"scenario":%q,"threads":%d,"bound":%d}`, sc.name, len(sc.threads), sc.bound)) {
		return
	}
	c.AddEvals(-1)
	c.Dim("scenario:" + sc.family)
	c.Dim(fmt.Sprintf("threads:%d", len(sc.threads)))
	// warm-up operations may have process-wide effects (the package-level default): run them once
	// before the sequential specification is computed
	for _, o := range sc.warm {
		o.run(NewPlenc(sc.cfg))
	}
	want := make([][]string, len(sc.threads))
	for i, ops := range sc.threads {
		want[i] = seqSpecCfg(sc.cfg, ops)
	}
	wantProbe := seqSpecCfg(sc.cfg, sc.probe)
	sched.YieldsOn = sc.yields
	defer func() { sched.YieldsOn = false }()
	if sc.yields {
		c.Dim("yield-points")
	}

	var p *plenc.Plenc
	var got [][]string
	bodies := func() []func() {
		sched.Suspend(func() {
			seenCodecs = seenCodecs[:0]
			p = NewPlenc(sc.cfg)
			for _, o := range sc.warm {
				o.run(p)
			}
		})
		got = make([][]string, len(sc.threads))
		bs := make([]func(), len(sc.threads))
		for i, ops := range sc.threads {
			i, ops := i, ops
			got[i] = make([]string, len(ops))
			bs[i] = func() {
				for k, o := range ops {
					got[i][k] = o.run(p)
				}
			}
		}
		return bs
	}
	outcomes := map[string]bool{}
	judge := func(r sched.Result) (sig, detail string) {
		for i, pv := range r.Panics {
			if pv != "" {
				return "panic:" + mc.PanicClass(firstLine(pv)) + "@" + mc.PlencFrame([]byte(pv)), fmt.Sprintf("thread %d (%s) panicked: %s", i, copNames(sc.threads[i]), firstLine(pv))
			}
		}
		if r.Deadlock {
			return "deadlock", r.StuckInfo
		}
		for i := range want {
			for k := range want[i] {
				if got[i][k] != want[i][k] {
					return "result-differs-from-sequential:" + sc.threads[i][k].name, fmt.Sprintf("thread %d %s returned %s, alone it returns %s", i, sc.threads[i][k].name, got[i][k], want[i][k])
				}
			}
		}
		if sig, detail := codecIdentity(); sig != "" {
			return sig, detail
		}
		// post-quiescence probe on the same instance, scheduler off
		var ps []string
		pi := p
		ps = make([]string, len(sc.probe))
		for k, o := range sc.probe {
			func() {
				defer func() {
					if rr := recover(); rr != nil {
						ps[k] = "panic: " + fmt.Sprint(rr)
					}
				}()
				ps[k] = o.run(pi)
			}()
			if ps[k] != wantProbe[k] {
				return "instance-poisoned-after-quiescence:" + o.name, fmt.Sprintf("after the threads finished, %s on the same instance gives %s, a fresh instance %s", o.name, trunc200(ps[k]), trunc200(wantProbe[k]))
			}
		}
		return "", ""
	}
	var firstBad []int
	var firstSig, firstDetail string
	nbad := 0
	var execs, nodes, preempted, points int64
	maxDev := 0
	limit := int64(30000)
	if c.Tier == "thorough" {
		limit = 3000000
	}
	// iterative deviation bounding: 0, 1, 2, ... then (two threads) no bound at all;
	// the first counterexample found has the fewest preemptions.
	bounds := []int{0, 1, 2, 3}
	if sc.bound < 0 {
		bounds = append(bounds, -1)
	} else {
		bounds = bounds[:0]
		for b := 0; b <= sc.bound; b++ {
			bounds = append(bounds, b)
		}
	}
	// self-test switches for the explorer itself (tools/e3_selftest.sh): only the sleep-set
	// search, or only the plain unbounded search
	switch os.Getenv("VERIF_E3_MODE") {
	case "por-only":
		bounds = []int{-1}
	case "full-only":
		bounds = []int{-2}
	}
	completed := "none"
	var xerr string
	capped := false
	for _, b := range bounds {
		x := &sched.Explorer{Bodies: bodies, Bound: b, Limit: limit, Stop: c.Expired}
		var bExecs int64
		x.Check = func(r sched.Result, id int) {
			bExecs++
			if bExecs%256 == 0 {
				c.Heartbeat()
			}
			dev := 0
			for _, pt := range r.Points {
				dev += pt.Cost
			}
			if dev > 0 {
				preempted++
			}
			nodes += int64(len(r.Points))
			c.Ops(r.Steps)
			sig, detail := judge(r)
			outcomes[sig+"|"+fmt.Sprint(got)] = true
			if sig != "" {
				nbad++
				if firstBad == nil {
					firstBad, firstSig, firstDetail = append([]int{}, r.Choices...), sig, fmt.Sprintf("deviation bound %d: %s", b, detail)
				}
			}
		}
		nbad = 0
		if b == -2 {
			x.Bound = -1
			x.Explore()
		} else if b < 0 {
			// all interleavings, one representative per class of commuting reorderings (sleep sets)
			x.ExploreAll()
			c.Count("sleep_set_blocked", x.Blocked)
		} else {
			x.Explore()
		}
		execs += x.Execs
		points += x.Points
		if x.MaxDev > maxDev {
			maxDev = x.MaxDev
		}
		if x.Error != "" {
			xerr = x.Error
			break
		}
		if x.Capped {
			capped = true
			break
		}
		if b < 0 {
			completed = "all interleavings"
		} else {
			completed = fmt.Sprintf("%d", b)
		}
		if firstBad != nil {
			break
		}
	}
	c.AddEvals(execs)
	c.AddNonTrivial(preempted)
	c.Count("states", nodes)
	c.Count("schedules", execs)
	c.Count("decision_points", points)
	c.Count("distinct_outcome_vectors", int64(len(outcomes)))
	c.Count("schedules:"+sc.family, execs)
	c.Count("decision_points:"+sc.family, points)
	if os.Getenv("VERIF_E3_MODE") != "" {
		var ks []string
		for k := range outcomes {
			ks = append(ks, k)
		}
		sort.Strings(ks)
		c.Note(fmt.Sprintf("OUTCOMES %s => %d distinct: %x", sc.name, len(ks), mc.Hash(strings.Join(ks, "\n"))))
	}
	c.Dim("completed-bound:" + completed)
	if xerr != "" {
		c.MachineErr(prop + " " + sc.name + ": " + xerr)
		return
	}
	if capped {
		c.Note(fmt.Sprintf("scenario %q: execution cap reached, completed deviation bound: %s", sc.name, completed))
	}
	if firstBad != nil {
		// determinism: replay the schedule twice, observations must be identical
		r1 := sched.Run(bodies(), firstBad, true)
		s1, _ := judge(r1)
		g1 := fmt.Sprint(got)
		r2 := sched.Run(bodies(), firstBad, true)
		s2, _ := judge(r2)
		if s1 != s2 || g1 != fmt.Sprint(got) || r1.Diverged != "" || r2.Diverged != "" {
			c.MachineErr(fmt.Sprintf("%s %s: schedule %v does not replay deterministically (%q vs %q)", prop, sc.name, firstBad, s1, s2))
			return
		}
		c.Violation(sc.family+"|"+firstSig, fmt.Sprintf("scenario %q, %d schedules fail at that bound; first failing schedule (choice list) %v; %s\ntrace: %s",
			sc.name, nbad, firstBad, firstDetail, strings.Join(r1.Ops, " ")))
		c.Outcome("violation")
	} else {
		c.Outcome("ok")
	}
	if os.Getenv("VERIF_SCENARIO") != "" {
		r0 := sched.Run(bodies(), nil, true)
		c.Note(fmt.Sprintf("scenario %q default schedule: %s", sc.name, strings.Join(r0.Ops, " ")))
		c.Note(fmt.Sprintf("scenario %q: schedules=%d decision_points=%d max_deviations=%d completed=%s outcomes=%d", sc.name, execs, points, maxDev, completed, len(outcomes)))
	}
	c.Sample(map[string]any{"scenario": sc.name, "schedules": execs, "decision_points": points, "max_deviations": maxDev, "completed_bound": completed, "distinct_outcome_vectors": len(outcomes)})
}

func firstLine(s string) string {
	if i := strings.IndexByte(s, '\n'); i >= 0 {
		return s[:i]
	}
	return s
}

func trunc200(s string) string {
	if len(s) > 200 {
		return s[:200] + "…"
	}
	return s
}

// canon renders any decoded value deterministically and completely (encoding/json cannot
// render maps with struct keys, fmt prints pointer addresses).
func canon(v reflect.Value) string {
	if !v.IsValid() {
		return "invalid"
	}
	if v.CanInterface() {
		if tm, ok := v.Interface().(time.Time); ok {
			return fmt.Sprintf("time(%d,%d)", tm.Unix(), tm.Nanosecond())
		}
	}
	switch v.Kind() {
	case reflect.Ptr, reflect.Interface:
		if v.IsNil() {
			return "nil"
		}
		return "&" + canon(v.Elem())
	case reflect.Struct:
		var b strings.Builder
		b.WriteString("{")
		for i := 0; i < v.NumField(); i++ {
			if i > 0 {
				b.WriteString(" ")
			}
			b.WriteString(v.Type().Field(i).Name + ":" + canon(v.Field(i)))
		}
		b.WriteString("}")
		return b.String()
	case reflect.Slice:
		if v.IsNil() {
			return "nil[]"
		}
		if v.Type().Elem().Kind() == reflect.Uint8 {
			return fmt.Sprintf("bytes(%x)", v.Bytes())
		}
		fallthrough
	case reflect.Array:
		var parts []string
		for i := 0; i < v.Len(); i++ {
			parts = append(parts, canon(v.Index(i)))
		}
		return "[" + strings.Join(parts, ",") + "]"
	case reflect.Map:
		if v.IsNil() {
			return "nilmap"
		}
		var parts []string
		it := v.MapRange()
		for it.Next() {
			parts = append(parts, canon(it.Key())+"=>"+canon(it.Value()))
		}
		sort.Strings(parts)
		return "map[" + strings.Join(parts, ",") + "]"
	case reflect.String:
		return fmt.Sprintf("%q", v.String())
	case reflect.Float32, reflect.Float64:
		return fmt.Sprintf("f%x", math.Float64bits(v.Float()))
	case reflect.Bool:
		return fmt.Sprint(v.Bool())
	case reflect.Int, reflect.Int8, reflect.Int16, reflect.Int32, reflect.Int64:
		return fmt.Sprint(v.Int())
	case reflect.Uint, reflect.Uint8, reflect.Uint16, reflect.Uint32, reflect.Uint64:
		return fmt.Sprint(v.Uint())
	}
	return fmt.Sprintf("?%s", v.Kind())
}
