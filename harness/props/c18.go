package props

import (
	"bytes"
	"encoding/binary"
	"fmt"
	"math/bits"

	"github.com/philpearl/plenc/plenccore"

	"verif/mc"
	"verif/ref"
)

func init() {
	register(&mc.Prop{
		ID: "C18",
		Rule: "closed numeric sets, each value one case-group: every uint64 whose ten 7-bit groups are drawn from {00,01,3f,40,7f}; 2^k-1,2^k,2^k+1; every value with <=3 bits set and its complement; " +
			"(thorough) all 2^32 values v and v<<32; all tags (wire types 0-7 x indexes <=2^16 and boundary indexes to 2^28); Skip over every reference-encoded field x suffix and over every byte string of length <=2 (quick) / <=3 (thorough) and boundary-varint token strings, compared with a reference skipper. " +
			"evaluations counts values/inputs; distinct_nontrivial counts distinct values >= 128 (multi-byte varints) and distinct non-empty Skip inputs",
		Assumptions: []string{"encoding/binary and the harness's own varint are the independent references",
			"varints longer than 10 bytes or overflowing 64 bits are a grey zone for Skip: any answer without a panic and within the input is accepted"},
		Work: c18Work,
		Post: func(a *mc.Agg) []string {
			return needDims(a, "varint", "zigzag", "tag", "decode", "skip-valid", "skip-hostile")
		},
	})
}

func c18Work(c *mc.Ctx) {
	// the numeric sets are checked in bulk (one Begin per block) to keep the cell cheap
	block := 0
	var cur []uint64
	flush := func(name string) {
		if len(cur) == 0 {
			return
		}
		block++
		if c.Owns(block) && c.Begin(fmt.Sprintf(`{"set":%q,"block":%d,"first":"%#x","n":%d}`, name, block, cur[0], len(cur))) {
			c.Guard("numeric|"+name+"|", func() {
				for _, u := range cur {
					c18Value(c, u)
					// values inside the thorough tier's full 32-bit sweeps are counted there
					if u >= 128 && !(c.Tier == "thorough" && (u < 1<<32 || u&0xffffffff == 0)) {
						c.NonTrivialKey(fmt.Sprintf("v%x", u))
					}
				}
			})
			c18Book(c, int64(len(cur)))
			c.Outcome("numeric-ok")
			if c.WantSample() {
				c.Sample(map[string]any{"set": name, "value": fmt.Sprintf("%#x", cur[0]), "varint": hx(plenccore.AppendVarUint(nil, cur[0])),
					"zigzag(int64)": fmt.Sprintf("%#x", plenccore.ZigZag(int64(cur[0])))})
			}
		}
		cur = cur[:0]
	}
	add := func(name string, u uint64) {
		cur = append(cur, u)
		if len(cur) == 4096 {
			flush(name)
		}
	}
	// 1. group products
	groups := []uint64{0x00, 0x01, 0x3f, 0x40, 0x7f}
	var rec func(i int, acc uint64)
	rec = func(i int, acc uint64) {
		if i == 10 {
			add("groups", acc)
			return
		}
		for _, g := range groups {
			if i == 9 && g > 1 {
				continue
			}
			rec(i+1, acc|g<<(7*uint(i)))
		}
	}
	rec(0, 0)
	flush("groups")
	// 2. powers of two +-1
	for k := 0; k < 64; k++ {
		p := uint64(1) << uint(k)
		add("pow2", p-1)
		add("pow2", p)
		add("pow2", p+1)
	}
	add("pow2", ^uint64(0))
	flush("pow2")
	// 3. <=3 bits set and complements
	for i := 0; i < 64; i++ {
		for j := i; j < 64; j++ {
			for k := j; k < 64; k++ {
				u := uint64(1)<<uint(i) | uint64(1)<<uint(j) | uint64(1)<<uint(k)
				add("bits3", u)
				add("bits3", ^u)
			}
		}
	}
	flush("bits3")
	// 4. thorough: all 32-bit values, low and high half
	if c.Tier == "thorough" {
		const chunk = 1 << 20
		for base := uint64(0); base < 1<<32; base += chunk {
			block++
			if !c.Owns(block) {
				continue
			}
			if c.Expired() {
				c.Note(fmt.Sprintf("stopped all-32-bit sweep at %#x", base))
				break
			}
			if !c.Begin(fmt.Sprintf(`{"set":"all32","base":"%#x","n":%d}`, base, 2*chunk)) {
				continue
			}
			c.Guard("numeric|all32|", func() {
				for v := base; v < base+chunk; v++ {
					c18Value(c, v)
					c18Value(c, v<<32)
				}
			})
			c18Book(c, 2*chunk)
			// distinct by construction: v over [base,base+chunk) and v<<32; v<<32 == v only for v == 0
			nt := int64(2 * chunk)
			if base == 0 {
				nt -= 128 + 1 // v < 128 is a one-byte varint (trivial); 0<<32 duplicates 0
			}
			c.AddNonTrivial(nt)
			c.Outcome("numeric-ok")
		}
	}
	c18Tags(c, &block)
	c18Decode(c, &block)
	c18Skip(c, &block)
}

// c18Decode drives the reading primitives with every short byte string and with every
// "k continuation bytes + final byte" shape around the 64-bit limit. Reference: the standard
// varint reader (encoding/binary): a varint that fits 64 bits is read with its exact value and
// length whatever follows it; a truncated one, or one that overflows 64 bits (more than ten
// bytes, or a tenth byte above 1), is reported with n <= 0 - never as a wrapped value.
func c18Decode(c *mc.Ctx, block *int) {
	check := func(in []byte) {
		c.Ops(3)
		c.Count("decoder_inputs", 1)
		c.Count("states", 1)
		c.AddEvals(1)
		c.Dim("decode")
		wv, wn := binary.Uvarint(in)
		v, n := plenccore.ReadVarUint(in)
		switch {
		case wn > 0 && (v != wv || n != wn):
			c.Violation("decode|read-varuint-differs-from-standard", fmt.Sprintf("input %s: ReadVarUint=(%#x,%d), standard varint=(%#x,%d)", hx(in), v, n, wv, wn))
		case wn <= 0 && n > 0:
			kind := "truncated"
			if wn < 0 {
				kind = "overflowing"
			}
			c.Violation("decode|read-varuint-accepts-"+kind, fmt.Sprintf("input %s: ReadVarUint=(%#x,%d), standard varint reports n=%d", hx(in), v, n, wn))
		}
		if wn > 0 {
			if len(in) > wn || wn > 1 {
				c.NonTrivialKey("d" + string(in))
			}
			if iv, in2 := plenccore.ReadVarInt(in); in2 != wn || iv != int64(wv>>1)^-int64(wv&1) {
				c.Violation("decode|read-varint-differs", fmt.Sprintf("input %s: ReadVarInt=(%d,%d)", hx(in), iv, in2))
			}
			wt, idx, tn := plenccore.ReadTag(in)
			if tn != wn || int(wt) != int(wv&7) || (wv>>3 < 1<<31 && idx != int(wv>>3)) {
				c.Violation("decode|read-tag-differs", fmt.Sprintf("input %s: ReadTag=(%d,%d,%d), varint %#x", hx(in), wt, idx, tn, wv))
			}
		} else {
			c.NonTrivialKey("d" + string(in))
			if _, n2 := plenccore.ReadVarInt(in); n2 > 0 {
				c.Violation("decode|read-varint-accepts-malformed", fmt.Sprintf("input %s: n=%d", hx(in), n2))
			}
			if _, _, n3 := plenccore.ReadTag(in); n3 > 0 {
				c.Violation("decode|read-tag-accepts-malformed", fmt.Sprintf("input %s: n=%d", hx(in), n3))
			}
		}
	}
	// (a) every byte string of length <= 2 (thorough 3)
	maxLen := 2
	if c.Tier == "thorough" {
		maxLen = 3
	}
	for first := 0; first < 256; first++ {
		*block++
		if !c.Owns(*block) || !c.Begin(fmt.Sprintf(`{"set":"decode-short","first_byte":%d}`, first)) {
			continue
		}
		c.Guard("decode|", func() {
			buf := []byte{byte(first)}
			var rec func()
			rec = func() {
				check(buf)
				if len(buf) == maxLen {
					return
				}
				for b := 0; b < 256; b++ {
					buf = append(buf, byte(b))
					rec()
					buf = buf[:len(buf)-1]
				}
			}
			rec()
		})
		c.Outcome("decode-ok")
	}
	// (b) k continuation bytes drawn from a pattern, every final byte, optional trailing byte
	pats := [][]byte{{0x80}, {0xff}, {0x81}, {0x80, 0xff}, {0xff, 0x80}, {0xaa, 0xd5}}
	for k := 0; k <= 12; k++ {
		*block++
		if !c.Owns(*block) || !c.Begin(fmt.Sprintf(`{"set":"decode-long","continuation_bytes":%d}`, k)) {
			continue
		}
		c.Guard("decode|", func() {
			for _, pat := range pats {
				pre := make([]byte, k)
				for i := range pre {
					pre[i] = pat[i%len(pat)]
				}
				for fb := 0; fb < 256; fb++ {
					in := append(append([]byte{}, pre...), byte(fb))
					check(in)
					check(append(append([]byte{}, in...), 0x00))
					check(append(append([]byte{}, in...), 0xff, 0x01))
				}
				check(pre)
			}
		})
		c.Outcome("decode-ok")
	}
}

func c18Value(c *mc.Ctx, u uint64) {
	b := plenccore.AppendVarUint(nil, u)
	want := binary.AppendUvarint(nil, u)
	if !bytes.Equal(b, want) || !bytes.Equal(b, ref.Uvarint(nil, u)) {
		c.Violation("varint|append-differs-from-protobuf", fmt.Sprintf("%#x: %s want %s", u, hx(b), hx(want)))
	}
	if n := plenccore.SizeVarUint(u); n != len(b) {
		c.Violation("varint|size", fmt.Sprintf("%#x: Size=%d len=%d", u, n, len(b)))
	}
	wantLen := (bits.Len64(u|1) + 6) / 7
	if len(b) != wantLen {
		c.Violation("varint|length", fmt.Sprintf("%#x: len=%d want %d", u, len(b), wantLen))
	}
	if v, n := plenccore.ReadVarUint(b); v != u || n != len(b) {
		c.Violation("varint|read", fmt.Sprintf("%#x: Read=(%#x,%d)", u, v, n))
	}
	if v, n := plenccore.ReadVarUint(append(b, 0x81, 0x00)); v != u || n != len(b) {
		c.Violation("varint|read-with-suffix", fmt.Sprintf("%#x: Read=(%#x,%d)", u, v, n))
	}
	if len(b) > 1 {
		if v, n := plenccore.ReadVarUint(b[:len(b)-1]); n > 0 {
			c.Violation("varint|read-truncated-succeeds", fmt.Sprintf("%#x: Read(trunc)=(%#x,%d)", u, v, n))
		}
	}
	pfx := []byte{0xaa, 0x55}
	if o := plenccore.AppendVarUint(pfx[:2:2], u); !bytes.Equal(o[:2], pfx) || !bytes.Equal(o[2:], b) {
		c.Violation("varint|append-prefix", fmt.Sprintf("%#x: %s", u, hx(o)))
	}
	// zig-zag
	i := int64(u)
	z := plenccore.ZigZag(i)
	if z != ref.ZigZag(i) {
		c.Violation("zigzag|differs-from-protobuf", fmt.Sprintf("%d: %#x want %#x", i, z, ref.ZigZag(i)))
	}
	if plenccore.ZagZig(z) != i {
		c.Violation("zigzag|not-inverse", fmt.Sprintf("%d -> %#x -> %d", i, z, plenccore.ZagZig(z)))
	}
	if plenccore.ZigZag(plenccore.ZagZig(u)) != u {
		c.Violation("zigzag|not-surjective", fmt.Sprintf("%#x", u))
	}
	// magnitude below 2^(7k-1) <=> k-byte code
	k := 1
	for k < 10 && !(i >= -(int64(1)<<(7*uint(k)-1)) && i < int64(1)<<(7*uint(k)-1)) {
		k++
	}
	sb := plenccore.AppendVarInt(nil, i)
	if len(sb) != k || plenccore.SizeVarInt(i) != k {
		c.Violation("zigzag|code-length", fmt.Sprintf("%d: len=%d size=%d want %d", i, len(sb), plenccore.SizeVarInt(i), k))
	}
	if v, n := plenccore.ReadVarInt(sb); v != i || n != len(sb) {
		c.Violation("zigzag|read", fmt.Sprintf("%d: Read=(%d,%d)", i, v, n))
	}
}

func c18Book(c *mc.Ctx, n int64) {
	c.Ops(int(8 * n))
	c.Count("values", n)
	c.Count("states", n)
	c.AddEvals(n)
	c.Count("dim-varint", n)
	c.Dim("varint")
	c.Dim("zigzag")
}

func c18Tags(c *mc.Ctx, block *int) {
	idxs := []int{}
	for i := 0; i <= 1<<16; i++ {
		idxs = append(idxs, i)
	}
	for k := 17; k <= 28; k++ {
		idxs = append(idxs, 1<<uint(k)-1, 1<<uint(k), 1<<uint(k)+1)
	}
	const chunk = 4096
	for s := 0; s < len(idxs); s += chunk {
		*block++
		e := s + chunk
		if e > len(idxs) {
			e = len(idxs)
		}
		if !c.Owns(*block) || !c.Begin(fmt.Sprintf(`{"set":"tags","first_index":%d,"n":%d}`, idxs[s], (e-s)*8)) {
			continue
		}
		c.Guard("tag|", func() {
			for _, idx := range idxs[s:e] {
				for wt := 0; wt < 8; wt++ {
					c.Dim("tag")
					c.Ops(3)
					c.Count("tags", 1)
					c.Count("states", 1)
					c.AddEvals(1)
					if idx > 15 {
						c.NonTrivialKey(fmt.Sprintf("t%d/%d", idx, wt))
					}
					b := plenccore.AppendTag(nil, plenccore.WireType(wt), idx)
					if !bytes.Equal(b, ref.Tag(idx, wt)) {
						c.Violation("tag|append", fmt.Sprintf("idx=%d wt=%d: %s want %s", idx, wt, hx(b), hx(ref.Tag(idx, wt))))
					}
					if n := plenccore.SizeTag(plenccore.WireType(wt), idx); n != len(b) {
						c.Violation("tag|size", fmt.Sprintf("idx=%d wt=%d: Size=%d len=%d", idx, wt, n, len(b)))
					}
					gwt, gidx, n := plenccore.ReadTag(append(b, 0xff))
					if int(gwt) != wt || gidx != idx || n != len(b) {
						c.Violation("tag|read", fmt.Sprintf("idx=%d wt=%d: Read=(%d,%d,%d)", idx, wt, gwt, gidx, n))
					}
				}
			}
		})
		c.Outcome("tags-ok")
	}
}

// refSkip is the reference skipper. ok: the field is well-formed and n is its
// length. grey: the input is in the grey zone (over-long varint), anything goes.
func refSkip(data []byte, wt int) (n int, ok, grey bool) {
	rv := func(b []byte) (uint64, int, bool, bool) { // value, n, ok, grey
		for i, c := range b {
			if i >= 10 {
				return 0, 0, false, true
			}
			if c < 0x80 {
				v, k := binary.Uvarint(b)
				if k <= 0 {
					return 0, 0, false, true // 10 bytes overflowing 64 bits
				}
				return v, k, true, false
			}
		}
		if len(b) >= 10 {
			return 0, 0, false, true
		}
		return 0, 0, false, false // truncated
	}
	switch wt {
	case 0:
		_, k, ok, grey := rv(data)
		return k, ok, grey
	case 1:
		return 8, len(data) >= 8, false
	case 5:
		return 4, len(data) >= 4, false
	case 2:
		l, k, ok, grey := rv(data)
		if !ok {
			return 0, false, grey
		}
		if l > uint64(len(data)-k) {
			return 0, false, false
		}
		return k + int(l), true, false
	case 3:
		cnt, k, ok, grey := rv(data)
		if !ok {
			return 0, false, grey
		}
		off := k
		for i := uint64(0); i < cnt; i++ {
			l, k, ok, grey := rv(data[off:])
			if !ok {
				return 0, false, grey
			}
			off += k
			if l > uint64(len(data)-off) {
				return 0, false, false
			}
			off += int(l)
		}
		return off, true, false
	}
	return 0, false, false
}

func c18SkipOne(c *mc.Ctx, data []byte, wt int, kind string) {
	c.Ops(1)
	c.Count("skip_inputs", 1)
	c.Count("states", 1)
	c.AddEvals(1)
	if len(data) > 0 {
		c.NonTrivialKey(fmt.Sprintf("s%d/%x", wt, data))
	}
	wn, wok, grey := refSkip(data, wt)
	var n int
	var err error
	pre := fmt.Sprintf("skip|wt%d|", wt)
	if c.Guard(pre, func() { n, err = plenccore.Skip(data, plenccore.WireType(wt)) }) {
		return
	}
	switch {
	case grey:
		if err == nil && (n <= 0 || n > len(data)) {
			c.Violation(pre+"grey-out-of-range", fmt.Sprintf("Skip(%s)=%d", hx(data), n))
		}
	case wok:
		if err != nil || n != wn {
			c.Violation(pre+"wellformed-wrong-length", fmt.Sprintf("Skip(%s)=(%d,%v) want %d", hx(data), n, err, wn))
		}
	default:
		if err == nil {
			cls := "malformed-accepted"
			if n > len(data) {
				cls = "overrun"
			} else if n <= 0 {
				cls = "non-positive"
			}
			c.Violation(pre+cls, fmt.Sprintf("Skip(%s)=(%d,nil), input is truncated or malformed", hx(data), n))
		}
	}
	_ = kind
}

func c18Skip(c *mc.Ctx, block *int) {
	// valid fields x suffixes
	var fields [][2]any // wt, bytes
	addF := func(wt int, b []byte) { fields = append(fields, [2]any{wt, b}) }
	for _, u := range []uint64{0, 1, 127, 128, 1<<14 - 1, 1 << 14, 1<<63 - 1, 1 << 63, ^uint64(0)} {
		addF(0, ref.Uvarint(nil, u))
	}
	addF(1, bytes.Repeat([]byte{0xff}, 8))
	addF(1, make([]byte, 8))
	addF(5, bytes.Repeat([]byte{0xff}, 4))
	addF(5, make([]byte, 4))
	for _, l := range []int{0, 1, 2, 127, 128, 300} {
		addF(2, append(ref.Uvarint(nil, uint64(l)), bytes.Repeat([]byte{0x80}, l)...))
	}
	elemLens := []int{0, 1, 128}
	for cnt := 0; cnt <= 3; cnt++ {
		var recs func(i int, acc []byte)
		recs = func(i int, acc []byte) {
			if i == cnt {
				addF(3, append(ref.Uvarint(nil, uint64(cnt)), acc...))
				return
			}
			for _, l := range elemLens {
				e := append(ref.Uvarint(nil, uint64(l)), bytes.Repeat([]byte{0xff}, l)...)
				recs(i+1, append(append([]byte(nil), acc...), e...))
			}
		}
		recs(0, nil)
	}
	addF(3, append(ref.Uvarint(nil, 130), bytes.Repeat([]byte{0x00}, 130)...))
	suffixes := [][]byte{nil, {0x00}, {0xff}, {0x80}, {0x0a, 0x01, 0x61}, bytes.Repeat([]byte{0xff}, 12)}
	*block++
	if c.Owns(*block) && c.Begin(fmt.Sprintf(`{"set":"skip-valid","fields":%d,"suffixes":%d}`, len(fields), len(suffixes))) {
		for _, f := range fields {
			for _, s := range suffixes {
				c.Dim("skip-valid")
				c18SkipOne(c, append(append([]byte(nil), f[1].([]byte)...), s...), f[0].(int), "valid")
			}
			// every truncation of a valid field must be an error (or shorter valid field)
			fb := f[1].([]byte)
			for cut := 0; cut < len(fb) && cut < 12; cut++ {
				c18SkipOne(c, fb[:cut], f[0].(int), "truncated")
			}
		}
		c.Outcome("skip-valid-ok")
	}
	// hostile: every byte string up to L, every wire type
	L := 2
	if c.Tier == "thorough" {
		L = 3
	}
	for first := 0; first < 256; first++ {
		*block++
		if !c.Owns(*block) || !c.Begin(fmt.Sprintf(`{"set":"skip-all-strings","first_byte":%d,"maxlen":%d}`, first, L)) {
			continue
		}
		var rec func(b []byte)
		rec = func(b []byte) {
			for wt := 0; wt < 8; wt++ {
				c.Dim("skip-hostile")
				c18SkipOne(c, b, wt, "hostile")
			}
			if len(b) < L {
				for x := 0; x < 256; x++ {
					rec(append(b[:len(b):len(b)], byte(x)))
				}
			}
		}
		if first == 0 {
			for wt := 0; wt < 8; wt++ {
				c18SkipOne(c, nil, wt, "hostile")
			}
		}
		rec([]byte{byte(first)})
		c.Outcome("skip-hostile-ok")
	}
	// hostile: token strings over boundary varints (lengths/counts) and short payloads
	toks := [][]byte{}
	for _, u := range []uint64{0, 1, 2, 3, 127, 128, 1 << 31, 1<<32 - 1, 1<<63 - 1, 1 << 63, ^uint64(0) - 10, ^uint64(0) - 1, ^uint64(0)} {
		toks = append(toks, ref.Uvarint(nil, u))
	}
	toks = append(toks, bytes.Repeat([]byte{0x80}, 9), append(bytes.Repeat([]byte{0xff}, 9), 0x01), append(bytes.Repeat([]byte{0xff}, 9), 0x7f),
		append(bytes.Repeat([]byte{0x80}, 10), 0x01), bytes.Repeat([]byte{0xff}, 11), []byte{0x61}, []byte{0x61, 0x62, 0x63})
	depth := 3
	if c.Tier == "thorough" {
		depth = 4
	}
	for i0 := range toks {
		*block++
		if !c.Owns(*block) || !c.Begin(fmt.Sprintf(`{"set":"skip-token-strings","first_token":%q,"depth":%d}`, hx(toks[i0]), depth)) {
			continue
		}
		var rec func(b []byte, d int)
		rec = func(b []byte, d int) {
			for _, wt := range []int{0, 2, 3} {
				c.Dim("skip-hostile")
				c18SkipOne(c, b, wt, "tokens")
			}
			if d < depth {
				for _, t := range toks {
					rec(append(b[:len(b):len(b)], t...), d+1)
				}
			}
		}
		rec(append([]byte(nil), toks[i0]...), 1)
		c.Outcome("skip-tokens-ok")
	}
}
