// Package sched is a cooperative scheduler that owns every synchronisation
// operation of the code under test (through the vsync/vatomic shims) and lets an
// explorer decide, at each such operation, which thread runs next and what the
// environment answers (sync.Pool reuse). Exactly one thread runs at a time.
package sched

import (
	"fmt"
	"runtime"
	"runtime/debug"
	"strings"
)

// PointRec records one decision point of an execution.
type PointRec struct {
	Kind    string // operation about to be performed by the chosen alternative's thread, or env kind
	Alts    int    // number of alternatives
	Chosen  int    // index chosen
	Cost    int    // deviation cost of the chosen alternative (0 for the default)
	AltCost []int  // deviation cost of every alternative
	Env     bool   // environment answer rather than a thread choice
	Thread  int    // thread that runs after this decision (for env: the asking thread)
}

// Result is what one execution produced.
type Result struct {
	Points    []PointRec
	Choices   []int
	Deadlock  bool
	Panics    []string // per thread, "" when none
	Steps     int
	Diverged  string // non-empty when a replayed prefix did not fit (hard error)
	Ops       []string
	StuckInfo string
}

type thread struct {
	id      int
	wake    chan struct{}
	body    func()
	done    bool
	started bool
	can     func() bool // enabledness of the pending operation
	kind    string
	panicV  string
}

// Exec is one controlled execution.
type Exec struct {
	threads []*thread
	yield   chan int // thread id that yielded (or finished)
	running int
	prefix  []int
	pos     int
	res     Result
	aborted bool
	trace   bool
}

var cur *Exec

// Active reports whether the calling code runs under a controlled execution.
func Active() bool { return cur != nil && !cur.aborted }

// Run executes the thread bodies under the scheduler, following prefix and then
// always taking alternative 0 (keep running the current thread if enabled, else
// the lowest enabled id; environment default answer).
func Run(bodies []func(), prefix []int, trace bool) Result {
	e := &Exec{yield: make(chan int), prefix: prefix, running: -1, trace: trace}
	for i, b := range bodies {
		e.threads = append(e.threads, &thread{id: i, wake: make(chan struct{}), body: b, kind: "start"})
	}
	e.res.Panics = make([]string, len(bodies))
	cur = e
	defer func() { cur = nil }()
	for _, t := range e.threads {
		go e.threadMain(t)
	}
	for {
		// collect enabled threads in canonical order
		var enabled []int
		if e.running >= 0 {
			t := e.threads[e.running]
			if !t.done && (t.can == nil || t.can()) {
				enabled = append(enabled, e.running)
			}
		}
		for _, t := range e.threads {
			if t.id != e.running && !t.done && (t.can == nil || t.can()) {
				enabled = append(enabled, t.id)
			}
		}
		if len(enabled) == 0 {
			all := true
			for _, t := range e.threads {
				all = all && t.done
			}
			if !all {
				e.res.Deadlock = true
				var s []string
				for _, t := range e.threads {
					if !t.done {
						s = append(s, fmt.Sprintf("T%d blocked at %s", t.id, t.kind))
					}
				}
				e.res.StuckInfo = strings.Join(s, "; ")
				e.abort()
			}
			break
		}
		costs := make([]int, len(enabled))
		for i, id := range enabled {
			// switching away from a thread that could continue is a preemption
			if i > 0 && e.running >= 0 && enabled[0] == e.running && id != e.running {
				costs[i] = 1
			}
		}
		ch := e.choose("sched", len(enabled), costs, false, -1)
		if e.res.Diverged != "" {
			e.abort()
			break
		}
		id := enabled[ch]
		e.res.Points[len(e.res.Points)-1].Thread = id
		e.res.Points[len(e.res.Points)-1].Kind = e.threads[id].kind
		e.running = id
		e.res.Steps++
		if trace {
			e.res.Ops = append(e.res.Ops, fmt.Sprintf("T%d:%s", id, e.threads[id].kind))
		}
		e.threads[id].wake <- struct{}{}
		<-e.yield
		if e.res.Diverged != "" {
			e.abort()
			break
		}
		if e.res.Steps > 200000 {
			e.res.Deadlock = true
			e.res.StuckInfo = "livelock: step limit exceeded"
			e.abort()
			break
		}
	}
	for i, t := range e.threads {
		e.res.Panics[i] = t.panicV
	}
	return e.res
}

func (e *Exec) choose(kind string, alts int, costs []int, env bool, thread int) int {
	ch := 0
	if e.pos < len(e.prefix) {
		ch = e.prefix[e.pos]
		if ch >= alts {
			e.res.Diverged = fmt.Sprintf("replay divergence at point %d: choice %d of %d alternatives (%s)", e.pos, ch, alts, kind)
			ch = 0
		}
	}
	e.pos++
	e.res.Choices = append(e.res.Choices, ch)
	e.res.Points = append(e.res.Points, PointRec{Kind: kind, Alts: alts, Chosen: ch, Cost: costs[ch], AltCost: costs, Env: env, Thread: thread})
	return ch
}

func (e *Exec) threadMain(t *thread) {
	<-t.wake
	if e.aborted {
		return
	}
	defer func() {
		if r := recover(); r != nil {
			t.panicV = fmt.Sprintf("%v\n%s", r, debug.Stack())
		}
		t.done = true
		if !e.aborted {
			e.yield <- t.id
		}
	}()
	t.body()
}

// abort releases every parked thread; they exit at their next scheduling point.
func (e *Exec) abort() {
	e.aborted = true
	for _, t := range e.threads {
		if !t.done {
			select {
			case t.wake <- struct{}{}:
			default:
				// the thread has not parked yet or is finishing; it will see aborted
				go func(t *thread) {
					defer func() { recover() }()
					t.wake <- struct{}{}
				}(t)
			}
		}
	}
}

// Point is called by the shims before an operation takes effect. can, when
// non-nil, says whether the operation can proceed (e.g. the mutex is free); the
// thread is not scheduled until it can.
func Point(kind string, can func() bool) {
	e := cur
	if e == nil {
		return
	}
	if e.aborted {
		runtime.Goexit()
	}
	t := e.threads[e.running]
	t.kind, t.can = kind, can
	e.yield <- t.id
	<-t.wake
	if e.aborted {
		runtime.Goexit()
	}
	t.can = nil
}

// EnvChoice asks the explorer for an environment answer in [0,n). Answer 0 is
// the default; others cost one deviation.
func EnvChoice(kind string, n int) int {
	e := cur
	if e == nil || e.aborted || n <= 1 {
		return 0
	}
	costs := make([]int, n)
	for i := 1; i < n; i++ {
		costs[i] = 1
	}
	ch := e.choose(kind, n, costs, true, e.running)
	if e.trace {
		e.res.Ops = append(e.res.Ops, fmt.Sprintf("T%d:env %s=%d", e.running, kind, ch))
	}
	return ch
}

// Suspend runs f with the scheduler switched off (pass-through shims); used by
// harness code that must touch the instance between or after executions.
func Suspend(f func()) {
	saved := cur
	cur = nil
	defer func() { cur = saved }()
	f()
}
