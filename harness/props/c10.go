package props

import (
	"fmt"
	"reflect"
	"strings"
	"time"

	"verif/mc"
	"verif/ref"
	"verif/sched"
)

func init() {
	register(&mc.Prop{
		ID: "C10",
		Rule: "explicit-state exploration of call histories on one Plenc instance and one target variable: history = (prior target value p0, then 2 (quick: 3 over the reduced value set; thorough: 3 over the full set) Unmarshal calls of encodings v1..vk into the same target, each followed by an Unmarshal of the same bytes into a fresh variable); " +
			"p0 and vi range over the boundary values of each re-use-sensitive type (slices of structs/pointers/scalars, maps with struct keys (pooled scratch) and pointer/struct values, nested pointers, interned strings, protobuf repeated form), priors additionally with aliased pointers and with slices truncated so that their spare capacity holds stale elements; " +
			"every history runs under the scheduler shim so that sync.Pool's reuse-vs-fresh answer is an explored environment choice. Oracle: target in ref.Merge(prior, v) after every call; fresh decode == ref.Expect(v) whatever the history. non-trivial = history in which the target held a non-zero value before a decode",
		Assumptions: []string{"ref.Merge is the weakest reading of the merge rules where the statement is silent (re-decoded map key with a struct value: merged or replaced)",
			"Marshal on the same instance is part of every history (its output must equal the reference bytes)"},
		Work: c10Work,
		Post: func(a *mc.Agg) []string {
			return needDims(a, "depth:2", "depth:3", "alias-prior", "stale-capacity-prior", "env-choice-explored", "cfg:default", "cfg:protoarrays")
		},
	})
}

func c10Types() []ref.Item {
	L := ref.Leaf
	s0, s0k := ref.S0(), ref.S0K()
	pint := ref.Ptr(L(ref.KInt))
	bases := []struct {
		t   *ref.T
		opt string
	}{
		{ref.Slice(s0), ""}, {ref.Slice(ref.Ptr(s0)), ""}, {ref.Slice(L(ref.KInt)), ""}, {ref.Slice(pint), ""}, {ref.Slice(L(ref.KFloat64)), ""},
		{ref.Slice(L(ref.KString)), ""}, {ref.Slice(L(ref.KBytes)), ""}, {ref.Slice(ref.Ptr(L(ref.KString))), ""},
		{ref.Slice(s0), "proto"}, {ref.Slice(L(ref.KString)), "proto"},
		{ref.Map(s0k, L(ref.KString)), ""}, {ref.Map(L(ref.KString), pint), ""}, {ref.Map(L(ref.KString), s0), ""}, {ref.Map(L(ref.KInt), L(ref.KInt)), ""},
		{ref.Map(s0k, s0), ""}, {ref.Map(L(ref.KString), L(ref.KString)), "proto"}, {ref.Map(L(ref.KString), ref.Slice(L(ref.KInt))), ""},
		{ref.Ptr(s0), ""}, {ref.Ptr(pint), ""}, {ref.Ptr(ref.Slice(L(ref.KInt))), ""}, {L(ref.KString), "intern"}, {L(ref.KTime), ""}, {s0, ""}, {L(ref.KBytes), ""},
		{ref.Struct(ref.Fld(1, pint), ref.Fld(2, ref.Slice(L(ref.KInt)))), ""},
		{ref.Slice(ref.Struct(ref.Fld(1, pint), ref.Fld(2, ref.Slice(L(ref.KInt))))), ""},
		{L(ref.KNullString), "intern"}, {ref.Ptr(L(ref.KString)), ""},
		// two byte-slice fields and a string: targets whose byte slices are windows on one buffer
		{ref.Struct(ref.Fld(1, L(ref.KBytes)), ref.Fld(2, L(ref.KBytes)), ref.Fld(3, L(ref.KString))), ""},
	}
	// every map shape also in the protobuf map form (another reader with its own scratch handling)
	for _, b := range bases {
		if b.t.K == ref.KMap && b.opt == "" && ref.ClassOf(ref.Cfg{}, b.t.Elem, "") != ref.CS {
			dup := false
			for _, o := range bases {
				dup = dup || (o.opt == "proto" && o.t.String() == b.t.String())
			}
			if !dup {
				bases = append(bases, struct {
					t   *ref.T
					opt string
				}{b.t, "proto"})
			}
		}
	}
	var out []ref.Item
	for _, b := range bases {
		out = append(out, ref.Item{T: ref.Struct(ref.FldO(1, b.opt, b.t), ref.F{Name: "Z", Index: 9, T: L(ref.KInt)}), Base: b.t, Opt: b.opt, Pos: "field"})
		if b.opt == "" && (b.t.K == ref.KSlice || b.t.K == ref.KMap) {
			out = append(out, ref.Item{T: b.t, Base: b.t, Pos: "top"})
		}
	}
	return out
}

// aliasPointers makes every slice of pointers share its first element's pointee and
// returns whether anything was aliased.
func aliasPointers(rv reflect.Value) bool {
	changed := false
	switch rv.Kind() {
	case reflect.Slice:
		if rv.Type().Elem().Kind() == reflect.Ptr && rv.Len() >= 2 && !rv.Index(0).IsNil() {
			for i := 1; i < rv.Len(); i++ {
				rv.Index(i).Set(rv.Index(0))
			}
			changed = true
		}
		for i := 0; i < rv.Len(); i++ {
			changed = aliasPointers(rv.Index(i)) || changed
		}
	case reflect.Ptr:
		if !rv.IsNil() {
			changed = aliasPointers(rv.Elem()) || changed
		}
	case reflect.Struct:
		for i := 0; i < rv.NumField(); i++ {
			if rv.Type().Field(i).IsExported() {
				changed = aliasPointers(rv.Field(i)) || changed
			}
		}
	}
	return changed
}

// truncateSlices re-slices every non-empty slice to length 0 or 1 keeping its capacity, so
// that the spare capacity holds stale elements (the x = x[:0]; Unmarshal(data, &x) pattern).
func truncateSlices(rv reflect.Value) bool {
	changed := false
	switch rv.Kind() {
	case reflect.Slice:
		if rv.Type().Elem().Kind() != reflect.Uint8 && rv.Len() >= 2 {
			rv.Set(rv.Slice(0, rv.Len()-2))
			changed = true
		} else if rv.Type().Elem().Kind() != reflect.Uint8 && rv.Len() == 1 {
			rv.Set(rv.Slice(0, 0))
			changed = true
		}
		for i := 0; i < rv.Len(); i++ {
			changed = truncateSlices(rv.Index(i)) || changed
		}
	case reflect.Ptr:
		if !rv.IsNil() {
			changed = truncateSlices(rv.Elem()) || changed
		}
	case reflect.Struct:
		for i := 0; i < rv.NumField(); i++ {
			if rv.Type().Field(i).IsExported() {
				changed = truncateSlices(rv.Field(i)) || changed
			}
		}
	}
	return changed
}

// windowBytes re-points every non-empty []byte reachable through struct fields and pointers at
// consecutive windows of ONE buffer, each window's capacity running on over the later windows
// (what a zero-copy parser leaves behind: key := line[:2]; value := line[3:]).
func windowBytes(rv reflect.Value) bool {
	var all []reflect.Value
	var walk func(v reflect.Value)
	walk = func(v reflect.Value) {
		switch v.Kind() {
		case reflect.Slice:
			if v.Type().Elem().Kind() == reflect.Uint8 && v.Len() > 0 {
				all = append(all, v)
			}
		case reflect.Ptr:
			if !v.IsNil() {
				walk(v.Elem())
			}
		case reflect.Struct:
			for i := 0; i < v.NumField(); i++ {
				if v.Type().Field(i).IsExported() {
					walk(v.Field(i))
				}
			}
		}
	}
	walk(rv)
	if len(all) < 2 {
		return false
	}
	total := 0
	for _, v := range all {
		total += v.Len() + 1
	}
	buf := make([]byte, total+256)
	off := 0
	for _, v := range all {
		n := copy(buf[off:], v.Bytes())
		v.SetBytes(buf[off : off+n : len(buf)])
		off += n // adjacent windows: growing one by a single byte runs into the next
	}
	return true
}

func c10Work(c *mc.Ctx) {
	probe := sched.Run([]func(){func() { NewPlenc(ref.Cfg{}).CodecForType(reflect.TypeOf(0)) }}, nil, false)
	if len(probe.Points) < 1 {
		c.MachineErr("the sync/atomic overlay is not active in this build: no scheduling points were hit")
		return
	}
	unit := 0
	if c.Owns(0) {
		c10CompatAppend(c)
	}
	if c.Owns(1) {
		c10OverlappingRows(c)
	}
	for _, it := range c10Types() {
		for _, cfg := range []ref.Cfg{{}, {ProtoArrays: true}} {
			if ref.ClassOf(cfg, it.T, "") == ref.CR {
				continue
			}
			if v, _ := ref.Accept(cfg, it.T, ""); v != ref.MustAccept {
				continue
			}
			full := ref.Values(it.T, 1)
			red := ref.Values(it.T, 0)
			max := 14
			if c.Tier == "thorough" {
				max = 40
			}
			if len(full) > max {
				// the simplest values come first, the richest (several non-default fields at once) last: keep both ends
				full = append(full[:max-max/3:max-max/3], full[len(full)-max/3:]...)
			}
			type plan struct {
				depth  int
				priors []ref.V
				vals   []ref.V
			}
			plans := []plan{{2, full, full}}
			if c.Tier == "thorough" {
				plans = append(plans, plan{3, full, full})
			} else {
				plans = append(plans, plan{3, red, red})
			}
			for _, pl := range plans {
				for pi, p0 := range pl.priors {
					unit++
					if !c.Owns(unit) {
						continue
					}
					if c.Expired() {
						c.Note("stopped before " + it.T.String())
						return
					}
					for alias := 0; alias < 4; alias++ {
						if !c.Begin(fmt.Sprintf(`{"cfg":%q,"type":%q,"opt":%q,"depth":%d,"prior_index":%d,"prior":%q,"prior_variant":%q,"values":%d}`,
							cfg, it.T, it.Opt, pl.depth, pi, ref.Str(it.T, p0), []string{"as built", "aliased pointers", "slices truncated keeping stale capacity", "byte slices windowed on one buffer"}[alias], len(pl.vals))) {
							continue
						}
						c.AddEvals(-1)
						c10Histories(c, cfg, it, p0, alias, pl.depth, pl.vals)
					}
				}
			}
		}
	}
}

func c10Histories(c *mc.Ctx, cfg ref.Cfg, it ref.Item, p0 ref.V, alias int, depth int, vals []ref.V) {
	c.Dim("cfg:" + cfg.String())
	c.Dim(fmt.Sprintf("depth:%d", depth))
	pre := fmt.Sprintf("%s|%s|", cfg, it.T)
	hist := make([]ref.V, 0, depth)
	zero := ref.Str(it.T, ref.Zero(it.T))
	var rec func()
	rec = func() {
		if len(hist) == depth {
			c10Run(c, pre, cfg, it, p0, alias, hist, zero)
			return
		}
		for _, v := range vals {
			hist = append(hist, v)
			rec()
			hist = hist[:len(hist)-1]
		}
	}
	rec()
}

var c10Runs int

func c10Run(c *mc.Ctx, pre string, cfg ref.Cfg, it ref.Item, p0 ref.V, alias int, hist []ref.V, zero string) {
	if c10Runs++; c10Runs%64 == 0 {
		c.Heartbeat() // one announced unit holds many histories
	}
	t := it.T
	var viol, detail string
	fail := func(sig, d string) {
		if viol == "" {
			viol, detail = sig, d
		}
	}
	var nontrivial bool
	var aliased, skipped, truncated, windowed bool
	body := func() {
		p := NewPlenc(cfg)
		target := reflect.New(t.Reflect())
		target.Elem().Set(ref.ToReflect(t, p0))
		if alias == 1 {
			aliased = aliasPointers(target.Elem())
			if !aliased {
				skipped = true
				return // nothing to alias in this prior: identical to the un-aliased history
			}
		}
		if alias == 2 {
			if !truncateSlices(target.Elem()) {
				skipped = true
				return
			}
			truncated = true
		}
		if alias == 3 {
			if !windowBytes(target.Elem()) {
				skipped = true
				return
			}
			windowed = true
		}
		prior := ref.FromReflect(t, target.Elem())
		for step, v := range hist {
			if ref.Str(t, prior) != zero {
				nontrivial = true
			}
			rv := ref.ToReflect(t, v)
			data, err := p.Marshal(nil, rv.Addr().Interface())
			c.Ops(3)
			if err != nil {
				fail("marshal-error", err.Error())
				return
			}
			if !ref.EncTop(cfg, t, v).MatchExact(data) {
				fail(fmt.Sprintf("marshal-differs-in-history:step%d", step), fmt.Sprintf("bytes %s model %s", hx(data), hx(ref.EncTop(cfg, t, v).Bytes())))
				return
			}
			// what the prior contents point to below a slice element must never be written: a re-used
			// backing array is cleared first, so every decoded element gets a pointee of its own
			var held []heldPointee
			holdSlicePointees(target.Elem(), false, "", &held)
			if err := p.Unmarshal(data, target.Interface()); err != nil {
				fail("unmarshal-error", err.Error())
				return
			}
			for _, h := range held {
				if now := canon(h.ptr.Elem()); now != h.was {
					fail("prior-pointee-written-through:"+h.path, fmt.Sprintf("the value the prior element %s pointed to was %s and is %s after decoding %s into the target", h.path, h.was, now, ref.Str(t, v)))
					return
				}
			}
			if bad := badSliceHeader(target.Elem(), ""); bad != "" {
				fail("decoded-slice-header-corrupt", bad)
				return
			}
			got := ref.FromReflect(t, target.Elem())
			gs := ref.Str(t, got)
			alts := ref.Merge(cfg, t, "", prior, v, true)
			ok := false
			for _, a := range alts {
				if ref.Str(t, a) == gs {
					ok = true
					break
				}
			}
			if !ok {
				path, d, _ := ref.Diff(t, alts[0], got)
				fail(fmt.Sprintf("merge-mismatch:step%d:%s", step, path), fmt.Sprintf("prior %s + data of %s -> %s; %s", ref.Str(t, prior), ref.Str(t, v), gs, d))
				return
			}
			prior = got
			// history independence: a fresh variable must decode as on a virgin instance
			fr := reflect.New(t.Reflect())
			if err := p.Unmarshal(data, fr.Interface()); err != nil {
				fail("fresh-unmarshal-error", err.Error())
				return
			}
			// (differential oracle: whether a virgin decode equals the original value is C01's question)
			var want ref.V
			var verr error
			sched.Suspend(func() {
				vg := reflect.New(t.Reflect())
				verr = NewPlenc(cfg).Unmarshal(data, vg.Interface())
				want = ref.FromReflect(t, vg.Elem())
			})
			if verr != nil {
				fail("virgin-unmarshal-error", verr.Error())
				return
			}
			if path, d, differ := ref.Diff(t, want, ref.FromReflect(t, fr.Elem())); differ {
				fail(fmt.Sprintf("fresh-decode-depends-on-history:step%d:%s", step, path), d)
				return
			}
			// the fresh decode must not have disturbed the kept target either
			if s := ref.Str(t, ref.FromReflect(t, target.Elem())); s != gs {
				fail(fmt.Sprintf("target-changed-by-unrelated-decode:step%d", step), fmt.Sprintf("target was %s, now %s", gs, s))
				return
			}
		}
	}
	x := &sched.Explorer{Bound: -1, Limit: 4096}
	x.Bodies = func() []func() { viol, detail = "", ""; return []func(){body} }
	var firstSched []int
	var firstViol, firstDetail string
	x.Check = func(r sched.Result, id int) {
		c.Count("states", int64(len(hist)))
		if r.Panics[0] != "" && viol == "" {
			viol, detail = "panic:"+mc.PanicClass(firstLine(r.Panics[0]))+"@"+mc.PlencFrame([]byte(r.Panics[0])), firstLine(r.Panics[0])
		}
		for _, pt := range r.Points {
			if pt.Env {
				c.Dim("env-choice-explored")
				break
			}
		}
		if viol != "" && firstViol == "" {
			firstViol, firstDetail, firstSched = viol, detail, append([]int{}, r.Choices...)
		}
	}
	x.Explore()
	if skipped {
		return
	}
	c.AddEvals(x.Execs)
	if aliased {
		c.Dim("alias-prior")
	}
	if truncated {
		c.Dim("stale-capacity-prior")
	}
	if windowed {
		c.Dim("windowed-bytes-prior")
	}
	hs := make([]string, len(hist))
	for i, v := range hist {
		hs[i] = ref.Str(t, v)
	}
	if nontrivial {
		c.NonTrivialKey(pre + ref.Str(t, p0) + fmt.Sprint(alias) + strings.Join(hs, "→"))
	}
	if x.Error != "" {
		c.MachineErr("C10: " + x.Error)
	}
	if firstViol != "" {
		c.Outcome("violation")
		c.Violation(pre+firstViol, fmt.Sprintf("prior %s (aliased=%v, truncated-with-stale-capacity=%v), history %s, env choices %v: %s", ref.Str(t, p0), aliased, truncated, strings.Join(hs, " → "), firstSched, firstDetail))
		return
	}
	c.Outcome("ok")
	if c.WantSample() {
		c.Sample(map[string]any{"cfg": cfg.String(), "type": t.String(), "prior": ref.Str(t, p0), "history": hs, "executions(env choices)": x.Execs})
	}
}

// c10CompatAppend: the repeated-field form read by a DEFAULT-mode instance (the compatibility path:
// a list field may arrive as repeated length-delimited fields and is then appended element by
// element). Data is written by an instance with ProtoCompatibleArrays and decoded by a default one
// into targets that already hold elements - with no, some or exactly no spare capacity, the spare
// capacity holding stale elements: the result must be the prior elements followed by the decoded
// ones, exactly, and the prior elements' own memory must not be written.
func c10CompatAppend(c *mc.Ctx) {
	type el struct {
		A int    `plenc:"1"`
		B string `plenc:"2"`
		P *int   `plenc:"3"`
	}
	type holder struct {
		S  []string    `plenc:"1"`
		E  []el        `plenc:"2"`
		PE []*el       `plenc:"3"`
		By [][]byte    `plenc:"4"`
		T  []time.Time `plenc:"5"`
		Z  int         `plenc:"9"`
	}
	seven := 7
	stale := el{A: 99, B: "stale", P: &seven}
	mkEls := func(n, from int) []el {
		var out []el
		for i := 0; i < n; i++ {
			switch (from + i) % 3 {
			case 0:
				out = append(out, el{A: from + i + 1}) // B and P absent from the data
			case 1:
				out = append(out, el{B: fmt.Sprint("b", from+i)})
			default:
				out = append(out, el{})
			}
		}
		return out
	}
	writer := NewPlenc(ref.Cfg{ProtoArrays: true})
	if !c.Begin(`{"set":"compat-append"}`) {
		return
	}
	c.AddEvals(-1)
	c.Dim("compat-append")
	for priorLen := 0; priorLen <= 9; priorLen++ {
		for _, spare := range []int{0, 1, 3, 8} {
			for newLen := 0; newLen <= 9; newLen++ {
				c.AddEvals(1)
				c.Count("states", 1)
				c.AddNonTrivial(1)
				sig := "compat-append|"
				c.Guard(sig, func() {
					// the prior target: priorLen elements, spare capacity filled with stale elements
					var tgt holder
					full := make([]el, priorLen+spare)
					fullS := make([]string, priorLen+spare)
					fullP := make([]*el, priorLen+spare)
					fullB := make([][]byte, priorLen+spare)
					fullT := make([]time.Time, priorLen+spare)
					for i := range full {
						full[i], fullS[i], fullP[i], fullB[i], fullT[i] = stale, "stale", &stale, []byte("stale"), time.Unix(99, 0).UTC()
					}
					prior := mkEls(priorLen, 100)
					copy(full, prior)
					tgt.E = full[:priorLen]
					tgt.S, tgt.PE, tgt.By, tgt.T = fullS[:priorLen], fullP[:priorLen], fullB[:priorLen], fullT[:priorLen]
					var wantS []string
					var wantP []*el
					var wantB [][]byte
					var wantT []time.Time
					for i := 0; i < priorLen; i++ {
						fullS[i], fullP[i], fullB[i], fullT[i] = fmt.Sprint("p", i), &el{A: i}, []byte{byte(i)}, time.Unix(int64(i), 0).UTC()
						wantS, wantP, wantB, wantT = append(wantS, fullS[i]), append(wantP, &el{A: i}), append(wantB, []byte{byte(i)}), append(wantT, fullT[i])
					}
					src := holder{E: mkEls(newLen, 0), Z: 5}
					for i := 0; i < newLen; i++ {
						src.S = append(src.S, fmt.Sprint("n", i%2*i)) // includes empty-ish repeats
						src.PE = append(src.PE, &el{B: fmt.Sprint(i)})
						src.By = append(src.By, []byte{1, byte(i)})
						src.T = append(src.T, time.Unix(int64(1000+i), int64(i)).UTC())
					}
					data, err := writer.Marshal(nil, &src)
					if err != nil {
						c.Violation(sig+"marshal-error", err.Error())
						return
					}
					reader := NewPlenc(ref.Cfg{})
					if err := reader.Unmarshal(data, &tgt); err != nil {
						c.Violation(sig+"unmarshal-error", fmt.Sprintf("prior %d spare %d new %d: %v", priorLen, spare, newLen, err))
						return
					}
					c.Ops(2)
					want := holder{E: append(append([]el(nil), prior...), src.E...), S: append(wantS, src.S...), PE: append(wantP, src.PE...), By: append(wantB, src.By...), T: append(wantT, src.T...), Z: 5}
					if bad := badSliceHeader(reflect.ValueOf(&tgt).Elem(), ""); bad != "" {
						c.Violation(sig+"decoded-slice-header-corrupt", bad)
						return
					}
					norm := func(h holder) string {
						// (an empty prior slice stays empty and non-nil when nothing is appended: not a difference)
						if len(h.S) == 0 {
							h.S = nil
						}
						if len(h.E) == 0 {
							h.E = nil
						}
						if len(h.PE) == 0 {
							h.PE = nil
						}
						if len(h.By) == 0 {
							h.By = nil
						}
						if len(h.T) == 0 {
							h.T = nil
						}
						return canon(reflect.ValueOf(h))
					}
					if got, w := norm(tgt), norm(want); got != w {
						c.Violation(sig+"appended-result-differs", fmt.Sprintf("prior %d elements, %d spare (stale) slots, %d decoded elements:\n got  %s\n want %s", priorLen, spare, newLen, trunc200(got), trunc200(w)))
						return
					}
					c.Outcome("ok")
				})
			}
		}
	}
}

// heldPointee is a pointer found below a slice element of a target's prior contents, with the
// rendering of what it pointed to.
type heldPointee struct {
	ptr  reflect.Value
	was  string
	path string
}

// holdSlicePointees collects the non-nil pointers reachable from rv through at least one slice
// element (not through map values: existing entries are merged by key, their pointees re-used).
func holdSlicePointees(rv reflect.Value, viaSlice bool, path string, out *[]heldPointee) {
	switch rv.Kind() {
	case reflect.Ptr:
		if rv.IsNil() {
			return
		}
		if viaSlice {
			// a detached copy of the pointer: rv itself is the slot, which the decode may refill
			p := reflect.New(rv.Type()).Elem()
			p.Set(rv)
			*out = append(*out, heldPointee{p, canon(p.Elem()), path})
		}
		holdSlicePointees(rv.Elem(), viaSlice, path+"*", out)
	case reflect.Struct:
		for i := 0; i < rv.NumField(); i++ {
			if rv.Type().Field(i).PkgPath == "" {
				holdSlicePointees(rv.Field(i), viaSlice, path+"."+rv.Type().Field(i).Name, out)
			}
		}
	case reflect.Slice:
		if k := rv.Type().Elem().Kind(); k != reflect.Ptr && k != reflect.Struct && k != reflect.Slice {
			return
		}
		// the whole backing array, not only the current length: stale slots are prior contents too
		full := rv
		if rv.Cap() > rv.Len() {
			full = rv.Slice(0, rv.Cap())
		}
		for i := 0; i < full.Len(); i++ {
			holdSlicePointees(full.Index(i), true, fmt.Sprintf("%s[%d]", path, i), out)
		}
	}
}

// c10OverlappingRows: slices of numeric slices decoded into a target whose old rows SHARE memory
// (windows onto one flat buffer at a stride shorter than the rows, or the same row stored several
// times) and have capacity to spare: every decoded row must hold exactly its encoded elements - rows
// must not be decoded on top of one another - whatever the old rows were.
func c10OverlappingRows(c *mc.Ctx) {
	if !c.Begin(`{"set":"overlapping-rows"}`) {
		return
	}
	c.AddEvals(-1)
	c.Dim("overlapping-rows")
	type holder struct {
		I [][]int     `plenc:"1"`
		F [][]float64 `plenc:"2"`
		B [][]bool    `plenc:"3"`
		U [][]uint16  `plenc:"4"`
		Z int         `plenc:"9"`
	}
	for oldRows := 1; oldRows <= 4; oldRows++ {
		for _, stride := range []int{0, 1, 2} { // 0: the same row every time
			for newRows := 0; newRows <= 4; newRows++ {
				for newLen := 0; newLen <= 3; newLen++ {
					c.AddEvals(1)
					c.Count("states", 1)
					c.AddNonTrivial(1)
					sig := "overlapping-rows|"
					c.Guard(sig, func() {
						flatI, flatF, flatB, flatU := make([]int, 64), make([]float64, 64), make([]bool, 64), make([]uint16, 64)
						for i := range flatI {
							flatI[i], flatF[i], flatB[i], flatU[i] = 900+i, 900.5+float64(i), true, uint16(900+i)
						}
						var tgt holder
						for r := 0; r < oldRows; r++ {
							o := r * stride
							tgt.I, tgt.F = append(tgt.I, flatI[o:o+3:o+8]), append(tgt.F, flatF[o:o+3:o+8])
							tgt.B, tgt.U = append(tgt.B, flatB[o:o+3:o+8]), append(tgt.U, flatU[o:o+3:o+8])
						}
						want := holder{Z: 3}
						for r := 0; r < newRows; r++ {
							var ri []int
							var rf []float64
							var rb []bool
							var ru []uint16
							for k := 0; k < (newLen+r)%4; k++ {
								ri, rf, rb, ru = append(ri, 10*r+k+1), append(rf, float64(10*r+k)+0.25), append(rb, (r+k)%2 == 0), append(ru, uint16(10*r+k+1))
							}
							want.I, want.F, want.B, want.U = append(want.I, ri), append(want.F, rf), append(want.B, rb), append(want.U, ru)
						}
						p := NewPlenc(ref.Cfg{})
						data, err := p.Marshal(nil, &want)
						if err != nil {
							c.Violation(sig+"marshal-error", err.Error())
							return
						}
						if err := p.Unmarshal(data, &tgt); err != nil {
							c.Violation(sig+"unmarshal-error", err.Error())
							return
						}
						c.Ops(2)
						if newRows == 0 {
							// nothing in the data for the four fields: the prior rows stay (absent keeps its prior value)
							c.Outcome("ok")
							return
						}
						if bad := badSliceHeader(reflect.ValueOf(&tgt).Elem(), ""); bad != "" {
							c.Violation(sig+"decoded-slice-header-corrupt", bad)
							return
						}
						norm := func(h holder) string {
							// an empty row may come back nil or empty
							return strings.ReplaceAll(canon(reflect.ValueOf(h)), "nil[]", "[]")
						}
						if got, w := norm(tgt), norm(want); got != w {
							c.Violation(sig+"rows-decoded-on-top-of-one-another", fmt.Sprintf("%d old rows at stride %d, %d new rows: got %s want %s", oldRows, stride, newRows, trunc200(got), trunc200(w)))
							return
						}
						c.Outcome("ok")
					})
				}
			}
		}
	}
}
