package ref

// Merge models the documented merge rules of Unmarshal into a target that
// already holds data (C10): prior is the target's value, v the value that was
// marshalled. It returns every acceptable result (more than one only where the
// statement is silent: a re-decoded map key whose struct value has absent fields
// may keep the prior field or take the zero field). top is true for the value
// handed to Unmarshal itself.
func Merge(cfg Cfg, t *T, opt string, prior, v V, top bool) []V {
	if !top && Omit(t, v) {
		return []V{prior} // absent from the data: the prior value stays
	}
	return mergePresent(cfg, t, opt, prior, v, top)
}

func mergePresent(cfg Cfg, t *T, opt string, prior, v V, top bool) []V {
	switch t.K {
	case KPtr:
		if v.Nil || ptrChainNil(t, v) {
			// nothing at all is written for a nil pointer or a pointer chain ending in nil
			if top {
				// a top-level nil pointer encodes to nothing; decoding nothing into a
				// pointer target allocates when nil and otherwise leaves the pointee
				return []V{prior}
			}
			return []V{prior}
		}
		if prior.Nil {
			var out []V
			for _, e := range mergePresent(cfg, t.Elem, opt, Zero(t.Elem), v.E[0], false) {
				out = append(out, V{E: []V{e}})
			}
			return out
		}
		var out []V
		for _, e := range mergePresent(cfg, t.Elem, opt, prior.E[0], v.E[0], false) {
			out = append(out, V{E: []V{e}})
		}
		return out
	case KStruct:
		outs := []V{{E: make([]V, len(t.Fields))}}
		for i, f := range t.Fields {
			var alts []V
			if !f.Encoded() {
				alts = []V{prior.E[i]}
			} else {
				alts = Merge(cfg, f.T, f.Opt, prior.E[i], v.E[i], false)
			}
			var next []V
			for _, o := range outs {
				for _, a := range alts {
					c := V{E: append([]V(nil), o.E...)}
					c.E[i] = a
					next = append(next, c)
				}
			}
			outs = next
		}
		return outs
	case KSlice:
		exp := Expect(cfg, t, opt, v, true)
		if ClassOf(cfg, t, opt) == CR {
			// protobuf repeated form: elements are appended to the existing ones
			if len(exp.E) == 0 {
				return []V{prior}
			}
			out := V{E: append(append([]V(nil), prior.E...), exp.E...)}
			return []V{out}
		}
		if len(exp.E) == 0 {
			// an empty encoded slice leaves length 0: nil stays nil, otherwise empty
			if prior.Nil {
				return []V{{Nil: true}}
			}
			return []V{{E: []V{}}, {Nil: true}}
		}
		return []V{exp}
	case KMap:
		if v.Nil {
			return []V{prior}
		}
		// entries are merged by key into the existing map
		type ent struct{ k, v V }
		var ents []ent
		idx := map[string]int{}
		for i := 0; i+1 < len(prior.E); i += 2 {
			idx[Str(t.Key, prior.E[i])] = len(ents)
			ents = append(ents, ent{prior.E[i], prior.E[i+1]})
		}
		outs := [][]ent{ents}
		for i := 0; i+1 < len(v.E); i += 2 {
			k := Expect(cfg, t.Key, "", v.E[i], false)
			ks := Str(t.Key, k)
			var alts []V
			var pos int
			j, exists := idx[ks]
			if exists {
				pos = j
				pv := ents[j].v
				if Omit(t.Elem, v.E[i+1]) {
					alts = []V{Expect(cfg, t.Elem, "", Zero(t.Elem), false)}
				} else {
					alts = mergePresent(cfg, t.Elem, "", pv, v.E[i+1], false)
					alts = append(alts, Expect(cfg, t.Elem, "", v.E[i+1], false))
				}
			} else {
				pos = -1
				alts = []V{Expect(cfg, t.Elem, "", v.E[i+1], false)}
			}
			var next [][]ent
			for _, o := range outs {
				for _, a := range alts {
					c := append([]ent(nil), o...)
					if pos >= 0 {
						c[pos] = ent{c[pos].k, a}
					} else {
						c = append(c, ent{k, a})
					}
					next = append(next, c)
				}
			}
			outs = next
			if !exists {
				idx[ks] = len(outs[0]) - 1
				ents = outs[0]
			}
		}
		var res []V
		for _, o := range outs {
			m := V{E: make([]V, 0, 2*len(o))}
			for _, e := range o {
				m.E = append(m.E, e.k, e.v)
			}
			res = append(res, m)
		}
		if len(prior.E) == 0 && len(v.E) == 0 && opt == "proto" {
			return []V{prior}
		}
		return res
	}
	// scalars, strings, bytes, times, null types: overwritten
	return []V{Expect(cfg, t, opt, v, !top)}
}
