package sched

import "fmt"

// Explorer enumerates executions by depth-first search over decision points with
// iterative deviation (preemption + environment) bounding.
type Explorer struct {
	Bodies func() []func()        // builds fresh thread bodies (fresh instance) per execution
	Check  func(r Result, id int) // oracle, called once per execution
	Bound  int                    // maximal total deviation cost (<0: unbounded)
	Limit  int64                  // stop after this many executions (0: none)
	Stop   func() bool            // external deadline
	Execs  int64
	Capped bool
	Points int64
	MaxDev int
	Error  string
}

func (x *Explorer) Explore() {
	x.explore(nil)
}

func (x *Explorer) explore(prefix []int) {
	if x.Capped || x.Error != "" {
		return
	}
	if (x.Limit > 0 && x.Execs >= x.Limit) || (x.Stop != nil && x.Execs%64 == 0 && x.Stop()) {
		x.Capped = true
		return
	}
	r := Run(x.Bodies(), prefix, false)
	x.Execs++
	x.Points += int64(len(r.Points))
	if r.Diverged != "" {
		x.Error = r.Diverged + fmt.Sprintf(" (prefix %v)", prefix)
		return
	}
	x.Check(r, int(x.Execs))
	dev := 0
	for i, p := range r.Points {
		if i < len(prefix) {
			dev += p.Cost
			continue
		}
		// alternatives at point i (chosen is 0 here by construction)
		for alt := 1; alt < p.Alts; alt++ {
			c := dev + p.AltCost[alt]
			if x.Bound >= 0 && c > x.Bound {
				continue
			}
			if c > x.MaxDev {
				x.MaxDev = c
			}
			np := make([]int, i+1)
			copy(np, r.Choices[:i])
			np[i] = alt
			x.explore(np)
			if x.Capped || x.Error != "" {
				return
			}
		}
		dev += p.Cost
	}
}
