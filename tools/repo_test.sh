#!/bin/sh
# Runs the pinned suite of a plenc tree (default /repo). TestDescriptor is flaky on the
# pinned tree itself (two-entry map rendered in iteration order, ~12% failures), so a
# failing run is retried up to 3 times and only a test failing every time counts.
export GOFLAGS=-mod=mod GOPROXY=off GOSUMDB=off GOTOOLCHAIN=local
D=${1:-/repo}
cd $D || exit 2
go build ./... || { echo "BUILD FAILED"; exit 2; }
for try in 1 2 3; do
	if go test -vet=off -count=1 -timeout 25m ./... > /tmp/repo_test.$$.log 2>&1; then
		rm -f /tmp/repo_test.$$.log; echo "SUITE PASS (try $try)"; exit 0
	fi
	grep -a -- "--- FAIL" /tmp/repo_test.$$.log | sort -u
done
tail -30 /tmp/repo_test.$$.log; rm -f /tmp/repo_test.$$.log
echo "SUITE FAIL"; exit 1
