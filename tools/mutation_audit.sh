#!/bin/sh
# Re-runs every saved seeded change (/verif/seeded/*/patch.diff) against the check of the
# property it breaks: applies the patch to /repo, runs `bin/check <ID> quick`, expects
# exit 1 with a VIOLATION line, reverts. Prints one line per seed and a summary.
# usage: tools/mutation_audit.sh [seed-dir-name ...]
cd /verif || exit 2
[ -z "$(git -C /repo status --porcelain)" ] || { echo "/repo is not clean"; exit 2; }
trap 'git -C /repo checkout -- . 2>/dev/null' EXIT INT TERM
seeds=${*:-$(ls seeded)}
ok=0; bad=0
for s in $seeds; do
	d=seeded/$s
	[ -s $d/patch.diff ] || continue
	id=$(python3 -c "import json;print(json.load(open('$d/meta.json'))['property'])")
	if ! git -C /repo apply $PWD/$d/patch.diff 2>/dev/null; then echo "$s: patch no longer applies"; bad=$((bad+1)); continue; fi
	bin/check $id quick > .build/audit.$$.out 2>&1; rc=$?
	git -C /repo checkout -- .
	nv=$(grep -ac '^VIOLATION' .build/audit.$$.out)
	if [ $rc -eq 1 ] && [ $nv -gt 0 ]; then ok=$((ok+1)); echo "$s ($id): DETECTED ($nv violation signatures)"; else bad=$((bad+1)); echo "$s ($id): NOT DETECTED (exit $rc)"; tail -3 .build/audit.$$.out | cut -c1-200; fi
	rm -f .build/audit.$$.out
done
echo "mutation audit: $ok detected, $bad not detected"
[ $bad -eq 0 ]
