#!/bin/sh
# usage: try_seed.sh <PROP-ID> <dir-with-patch.diff-and-demo> [check-ids...]
# Confirms a seeded change independently and runs the checks against it, all in a scratch
# worktree of /repo's HEAD (nothing is applied to /repo, evidence of the real tree is not
# touched): 1. the pinned suite passes with the change, the demo fails with it and passes
# without it; 2. the property's quick check (or the listed checks) against the changed copy.
export GOFLAGS=-mod=mod GOPROXY=off GOSUMDB=off GOTOOLCHAIN=local
ID=$1; SRC=$2; shift 2
CHECKS=${*:-$ID}
[ -s $SRC/patch.diff ] || { echo "no patch.diff in $SRC"; exit 2; }
W=/tmp/tryseed.$$; O=/tmp/tryseed.$$.out
git -C /repo worktree add -q --detach $W HEAD || exit 2
cleanup() { git -C /repo worktree remove --force $W 2>/dev/null; rm -rf $O /tmp/tryseed.$$.log; }
trap cleanup EXIT INT TERM
DEMO=$(cd $SRC && git status --porcelain 2>/dev/null | grep -a '^??' | awk '{print $2}' | grep -a '_test.go$' | head -1)
[ -n "$DEMO" ] || DEMO=$(cd $SRC && find . -name 'seed_demo_test.go' | head -1 | sed 's|^\./||')
[ -f $SRC/meta.json ] && DEMO=$(python3 -c "import json;print(json.load(open('$SRC/meta.json')).get('demo_test_path_in_repo','$DEMO'))")
echo "demo test file: $DEMO"
PKG=./$(dirname $DEMO)
(cd $W && git apply $SRC/patch.diff) || { echo "RESULT $ID patch-does-not-apply"; exit 1; }
SUITE=fail
for try in 1 2 3; do (cd $W && go test -vet=off -count=1 ./... >/tmp/tryseed.$$.log 2>&1) && { SUITE=pass; break; }; done
echo "suite with change: $SUITE"; [ $SUITE = pass ] || grep -a -- "--- FAIL\|^FAIL\|panic" /tmp/tryseed.$$.log | head -5
mkdir -p $W/$(dirname $DEMO)
if [ -f $SRC/$DEMO ]; then cp $SRC/$DEMO $W/$DEMO; else cp $SRC/seed_demo_test.go $W/$DEMO; fi
DEMOWITH=pass; (cd $W && go test -vet=off -count=1 -run TestSeedDemo $PKG >/tmp/tryseed.$$.log 2>&1) || DEMOWITH=fail
echo "demo with change: $DEMOWITH"
(cd $W && git apply -R $SRC/patch.diff)
DEMOWITHOUT=fail; (cd $W && go test -vet=off -count=1 -run TestSeedDemo $PKG >/tmp/tryseed.$$.log 2>&1) && DEMOWITHOUT=pass
echo "demo without change: $DEMOWITHOUT"
rm -f $W/$DEMO
(cd $W && git apply $SRC/patch.diff)
mkdir -p $O
for c in $CHECKS; do
	VERIF_REPO=$W VERIF_OUT=$O /verif/bin/check $c quick > $O/$c.out 2>&1; rc=$?
	nv=$(grep -ac '^VIOLATION' $O/$c.out)
	echo "check $c: exit=$rc violations=$nv $(grep -a '^VIOLATION' $O/$c.out | head -2 | cut -c1-220 | tr '\n' ' ')"
	[ $rc -eq 2 ] && tail -5 $O/$c.out | cut -c1-300
done
echo "RESULT $ID suite=$SUITE demo_with=$DEMOWITH demo_without=$DEMOWITHOUT"
