package props

import (
	"encoding/json"
	"fmt"
	"math"
	"reflect"
	"sort"
	"strings"

	"github.com/philpearl/plenc"
	"github.com/philpearl/plenc/plenccodec"

	"verif/mc"
	"verif/ref"
)

func init() {
	register(&mc.Prop{
		ID: "C16",
		Rule: "JSON-model trees: depth-1 containers (arrays and string-keyed maps of width <=2, thorough 3) over all 16 leaves {nil, true, false, int 0/-1/max/min, float64 0/1.5/-2.5e-7, \"\", \"a\", non-ASCII, json.Number 0 / 1e5 / -12.5, empty and nil array, empty and nil map} and keys {\"\", a, b}; " +
			"depth-2 containers over a reduced element set plus every depth-1 container; depth-3 wrappers; each tree in four positions: top-level map, top-level array, struct field followed by a sibling, and as an unknown field skipped by a struct that lacks it. " +
			"Oracle: Marshal/Unmarshal give an equal value (nil and empty containers interchangeable), the sibling survives, size==len(append), and the Descriptor + JSON outputter over the same bytes renders JSON equal to encoding/json's rendering of the value. non-trivial = tree containing at least one container inside a container",
		Assumptions: []string{"only the dynamic types the statement lists occur (nil, bool, int, float64, string, json.Number, []any, map[string]any)"},
		Work:        c16Work,
		Post: func(a *mc.Agg) []string {
			return needDims(a, "pos:top-map", "pos:top-array", "pos:field", "pos:skipped", "depth:1", "depth:2", "depth:3", "descriptor-json")
		},
	})
}

type c16WithJSON struct {
	M map[string]any `plenc:"1"`
	A []any          `plenc:"2"`
	Z int            `plenc:"3"`
}
type c16Without struct {
	Z int `plenc:"3"`
}

func c16Plenc() *plenc.Plenc {
	p := NewPlenc(ref.Cfg{})
	p.RegisterCodec(reflect.TypeOf(map[string]any{}), plenccodec.JSONMapCodec{})
	p.RegisterCodec(reflect.TypeOf([]any{}), plenccodec.JSONArrayCodec{})
	return p
}

func c16Leaves() []any {
	return []any{nil, true, false, 0, -1, math.MaxInt64, math.MinInt64, 0.0, 1.5, -2.5e-7, "", "a", "é\n\"", json.Number("0"), json.Number("1e5"), json.Number("-12.5"),
		[]any{}, []any(nil), map[string]any{}, map[string]any(nil)}
}

var c16Keys = []string{"", "a", "b"}

// containers builds every array and map of width 1..w over elems (maps: distinct keys in order).
func c16Containers(elems []any, w int) []any {
	var out []any
	var rec func(cur []any)
	rec = func(cur []any) {
		if len(cur) > 0 {
			out = append(out, append([]any(nil), cur...))
			m := map[string]any{}
			for i, e := range cur {
				m[c16Keys[i]] = e
			}
			out = append(out, m)
			// the same elements under a different key assignment
			if len(cur) == 1 {
				out = append(out, map[string]any{"a": cur[0]}, map[string]any{"b": cur[0]})
			}
		}
		if len(cur) == w {
			return
		}
		for _, e := range elems {
			rec(append(cur, e))
		}
	}
	rec(nil)
	return out
}

// norm converts a value to a canonical comparable string, nil and empty containers being equal.
func c16Norm(v any) string {
	switch x := v.(type) {
	case nil:
		return "null"
	case bool:
		return fmt.Sprintf("b:%v", x)
	case int:
		return fmt.Sprintf("i:%d", x)
	case float64:
		return fmt.Sprintf("f:%x", math.Float64bits(x))
	case string:
		return fmt.Sprintf("s:%q", x)
	case json.Number:
		return fmt.Sprintf("n:%s", string(x))
	case []any:
		parts := make([]string, len(x))
		for i, e := range x {
			parts[i] = c16Norm(e)
		}
		return "[" + strings.Join(parts, ",") + "]"
	case map[string]any:
		var parts []string
		for k, e := range x {
			parts = append(parts, fmt.Sprintf("%q:%s", k, c16Norm(e)))
		}
		sort.Strings(parts)
		return "{" + strings.Join(parts, ",") + "}"
	}
	return fmt.Sprintf("?%T", v)
}

// jsonNorm renders the JSON data model of a parsed document / of the expected value.
func c16JSONNorm(t jtok) string {
	switch t.kind {
	case "obj":
		var parts []string
		for i, k := range t.keys {
			parts = append(parts, fmt.Sprintf("%q:%s", k, c16JSONNorm(t.elems[i])))
		}
		sort.Strings(parts)
		return "{" + strings.Join(parts, ",") + "}"
	case "arr":
		parts := make([]string, len(t.elems))
		for i, e := range t.elems {
			parts[i] = c16JSONNorm(e)
		}
		return "[" + strings.Join(parts, ",") + "]"
	case "num":
		f, _ := json.Number(t.s).Float64()
		if i, err := json.Number(t.s).Int64(); err == nil {
			return fmt.Sprintf("i:%d", i)
		}
		return fmt.Sprintf("f:%x", math.Float64bits(f))
	case "str":
		return fmt.Sprintf("s:%q", t.s)
	case "bool":
		return "b:" + t.s
	}
	return "null"
}

// emptyForNil replaces nil containers by empty ones (they are interchangeable) so
// that encoding/json renders [] / {} like the outputter does.
func c16EmptyForNil(v any) any {
	switch x := v.(type) {
	case []any:
		o := make([]any, len(x))
		for i, e := range x {
			o[i] = c16EmptyForNil(e)
		}
		return o
	case map[string]any:
		o := make(map[string]any, len(x))
		for k, e := range x {
			o[k] = c16EmptyForNil(e)
		}
		return o
	}
	return v
}

func c16Work(c *mc.Ctx) {
	w := 2
	if c.Tier == "thorough" {
		w = 3
	}
	leaves := c16Leaves()
	d1 := c16Containers(leaves, w)
	reduced := []any{nil, 0, "a", 1.5, []any{}, map[string]any{"a": nil}, json.Number("1e5"), false}
	var d2elems []any
	d2elems = append(d2elems, reduced...)
	unit := 0
	run := func(depth int, tree any) {
		unit++
		if !c.Owns(unit) {
			return
		}
		c16Tree(c, depth, tree)
	}
	for _, t := range d1 {
		run(1, t)
	}
	// the empty and the nil container in every position (as the top-level value they encode to no bytes at all)
	for _, t := range []any{map[string]any{}, map[string]any(nil), []any{}, []any(nil)} {
		c.Dim("empty-top-level")
		run(1, t)
	}
	// depth 2: containers over the reduced set (width w), plus every depth-1 container as the only element / value
	for _, t := range c16Containers(reduced, w) {
		run(2, t)
	}
	for _, t := range d1 {
		run(2, []any{t})
		run(2, map[string]any{"a": t})
		run(2, []any{0, t})
		run(2, map[string]any{"": t, "b": "x"})
	}
	// the size dimension: strings, keys and containers of every sweep length, nested so that their
	// size feeds an enclosing entry's length prefix and a sibling follows them
	for _, n := range ref.SweepLengths(c.Tier, true) {
		if n > 20000 {
			continue
		}
		str := strings.Repeat("s", n)
		arr := make([]any, n)
		obj := map[string]any{}
		for i := range arr {
			arr[i] = i % 5
			obj[fmt.Sprintf("k%d", i)] = i
		}
		run(2, map[string]any{"a": []any{str}})
		run(2, map[string]any{"a": []any{1, str, nil}, "b": "after"})
		run(2, []any{[]any{str}, "after"})
		run(2, map[string]any{"k": str, "z": 1})
		run(2, map[string]any{"k" + str: 1, "b": 2})
		run(3, map[string]any{"a": []any{map[string]any{"k1": str, "k2": 2}}})
		if n <= 2100 {
			run(2, map[string]any{"a": arr, "b": "x"})
			run(2, []any{arr, "after"})
			run(2, []any{obj, "after"})
			run(3, map[string]any{"m": map[string]any{"in": obj}, "z": []any{arr}})
		}
	}
	// wide containers: widths around every power of two from 2^12 to 2^16 (thorough 2^20)
	maxK := 16
	if c.Tier == "thorough" {
		maxK = 20
	}
	for k := 12; k <= maxK; k++ {
		for _, n := range []int{1<<k - 1, 1 << k, 1<<k + 1, 1<<k + 1<<(k-4)} {
			if c.Expired() {
				break
			}
			c.Heartbeat()
			arr := make([]any, n)
			obj := make(map[string]any, n)
			for i := range arr {
				arr[i] = i % 5
				obj[fmt.Sprintf("k%d", i)] = i
			}
			c.Dim("wide")
			run(1, arr)
			run(2, []any{arr, "after"})
			run(2, map[string]any{"a": arr, "b": "x"})
			run(1, obj)
			run(2, []any{obj, "after"})
		}
	}
	// depth 3: wrap depth-2 containers
	for i, t := range d1 {
		if c.Tier != "thorough" && i%7 != 0 {
			continue
		}
		run(3, []any{[]any{t}})
		run(3, map[string]any{"a": map[string]any{"": t}})
		run(3, []any{map[string]any{"b": t}, nil})
		run(3, map[string]any{"a": []any{t, t}})
	}
}

func c16Nested(v any, inside bool) bool {
	switch x := v.(type) {
	case []any:
		if inside {
			return true
		}
		for _, e := range x {
			if c16Nested(e, true) {
				return true
			}
		}
	case map[string]any:
		if inside {
			return true
		}
		for _, e := range x {
			if c16Nested(e, true) {
				return true
			}
		}
	}
	return false
}

func c16Tree(c *mc.Ctx, depth int, tree any) {
	ns := c16Norm(tree)
	for _, pos := range []string{"top-map", "top-array", "field", "skipped"} {
		_, isMap := tree.(map[string]any)
		if (pos == "top-map") != isMap && pos != "field" && pos != "skipped" {
			continue
		}
		if !c.Begin(fmt.Sprintf(`{"pos":%q,"depth":%d,"tree":%q}`, pos, depth, ns)) {
			continue
		}
		c.Dim("pos:" + pos)
		c.Dim(fmt.Sprintf("depth:%d", depth))
		if c16Nested(tree, false) {
			c.NonTrivial()
		}
		pre := pos + "|"
		c.Guard(pre, func() {
			p := c16Plenc()
			var data []byte
			var err error
			var got any
			var src c16WithJSON
			switch pos {
			case "top-map":
				m := tree.(map[string]any)
				data, err = p.Marshal(nil, &m)
				if err == nil {
					var out map[string]any
					err = p.Unmarshal(data, &out)
					got = out
				}
			case "top-array":
				a := tree.([]any)
				data, err = p.Marshal(nil, &a)
				if err == nil {
					var out []any
					err = p.Unmarshal(data, &out)
					got = out
				}
			default:
				if isMap {
					src = c16WithJSON{M: tree.(map[string]any), A: []any{"sib", 1}, Z: 77}
				} else {
					src = c16WithJSON{A: tree.([]any), M: map[string]any{"sib": 1}, Z: 77}
				}
				data, err = p.Marshal(nil, &src)
				if err == nil && pos == "field" {
					var out c16WithJSON
					err = p.Unmarshal(data, &out)
					if err == nil && out.Z != 77 {
						c.Violation(pre+"sibling-lost", fmt.Sprintf("tree %s: Z=%d", ns, out.Z))
						return
					}
					if isMap {
						got = out.M
					} else {
						got = out.A
					}
				}
				if err == nil && pos == "skipped" {
					var out c16Without
					err = p.Unmarshal(data, &out)
					if err == nil && out.Z != 77 {
						c.Violation(pre+"sibling-lost-after-skipping-json-field", fmt.Sprintf("tree %s: Z=%d data %s", ns, out.Z, hx(data)))
						return
					}
				}
			}
			c.Ops(2)
			if err != nil {
				c.Violation(pre+"error:"+mc.PanicClass(err.Error()), fmt.Sprintf("tree %s: %v", ns, err))
				return
			}
			if pos != "skipped" {
				// nil and empty containers are interchangeable: compare through the normal form of the "empty" variant
				if g, w := c16Norm(c16EmptyForNil(orEmpty(got, isMap))), c16Norm(c16EmptyForNil(tree)); g != w {
					c.Violation(pre+"round-trip-differs", fmt.Sprintf("want %s got %s data %s", w, g, hx(data)))
					return
				}
			}
			// descriptor-driven JSON over the same bytes
			var codecT reflect.Type
			switch pos {
			case "top-map":
				codecT = reflect.TypeOf(map[string]any{})
			case "top-array":
				codecT = reflect.TypeOf([]any{})
			default:
				codecT = reflect.TypeOf(c16WithJSON{})
			}
			codec, err := p.CodecForType(codecT)
			if err != nil {
				c.Violation(pre+"codec-error", err.Error())
				return
			}
			d := codec.Descriptor()
			var j plenccodec.JSONOutput
			c.Dim("descriptor-json")
			if err := d.Read(&j, data); err != nil {
				c.Violation(pre+"descriptor-read-error:"+mc.PanicClass(err.Error()), fmt.Sprintf("tree %s data %s: %v", ns, hx(data), err))
				return
			}
			doc := j.Done()
			tok, err := parseJSON(doc)
			if err != nil {
				c.Violation(pre+"descriptor-json-invalid", fmt.Sprintf("tree %s -> %q", ns, doc))
				return
			}
			var expVal any = c16EmptyForNil(tree)
			if pos == "field" || pos == "skipped" {
				m := map[string]any{"Z": 77}
				if len(src.M) > 0 || src.M != nil {
					m["M"] = c16EmptyForNil(src.M)
				}
				if len(src.A) > 0 {
					m["A"] = c16EmptyForNil(src.A)
				}
				expVal = m
			}
			eb, _ := json.Marshal(expVal)
			etok, _ := parseJSON(eb)
			if g, w := c16JSONNorm(tok), c16JSONNorm(etok); g != w {
				c.Violation(pre+"descriptor-json-differs", fmt.Sprintf("tree %s -> %q; want content %s got %s", ns, doc, w, g))
				return
			}
			c.Outcome("ok")
			if c.WantSample() {
				c.Sample(map[string]string{"pos": pos, "tree": ns, "bytes": hx(data), "descriptor_json": string(doc)})
			}
		})
	}
}

func orEmpty(v any, isMap bool) any {
	switch x := v.(type) {
	case map[string]any:
		if x == nil {
			return map[string]any{}
		}
	case []any:
		if x == nil {
			return []any{}
		}
	case nil:
		if isMap {
			return map[string]any{}
		}
		return []any{}
	}
	return v
}
