package props

import (
	"fmt"

	"verif/mc"
	"verif/ref"
)

func init() {
	register(&mc.Prop{
		ID: "C02",
		Rule: "same case universe as C01; encode side: the bytes of the real Marshal must match the reference encoding tree byte for byte (map entries in any order); " +
			"decode side: the reference bytes are presented to the real Unmarshal in every permutation of the outermost struct's fields (<=4 fields, rotations beyond) and with every nested struct body and map reversed; " +
			"non-trivial = non-zero value with a non-empty encoding",
		Assumptions: []string{"the reference encoder (ref.EncTop) is written from README/wire.go doc comments/golden files and must reproduce all 19 golden files before any verdict",
			"key-before-value inside a map entry is kept as plenc writes it (README: proto-encoded maps are not readable)"},
		Pre: func(string) error { return ref.CheckGolden(mc.RepoDir) },
		Work: func(c *mc.Ctx) {
			enumItems(c, withRecursive(ref.Universe(c.Tier)), c02Case)
			// the encoding must not depend on which types the instance built before
			unit := 1 << 20
			buildOrder(c, &unit, "C02", bytesProbe)
		},
		Post: func(a *mc.Agg) []string {
			return needDims(a, "pos:top", "pos:field", "pos:elem", "pos:mapval", "pos:mapkey", "decode-variants", "build-order")
		},
	})
}

func c02Case(c *mc.Ctx, cfg ref.Cfg, it ref.Item, v ref.V, vs string, undoc string) {
	c.Dim("pos:" + it.Pos)
	pre := fmt.Sprintf("%s|%s|%s|%s", cfg, it.Pos, it.T, undoc)
	c.Guard(pre, func() {
		p := NewPlenc(cfg)
		rv := ref.ToReflect(it.T, v)
		data, err := p.Marshal(nil, rv.Addr().Interface())
		c.Ops(1)
		if err != nil {
			c.Violation(pre+"marshal-error", err.Error())
			return
		}
		tree := ref.EncTop(cfg, it.T, v)
		if len(data) > 0 && vs != ref.Str(it.T, ref.Zero(it.T)) {
			c.NonTrivial()
		}
		if !tree.MatchExact(data) {
			c.Outcome("encode-mismatch")
			c.Violation(pre+"encode-mismatch:"+encDiffClass(tree.Bytes(), data), fmt.Sprintf("plenc %s model %s", hx(data), hx(tree.Bytes())))
			return
		}
		// decode side
		// The oracle for the re-ordered inputs is differential: each must decode to
		// exactly what the declared order decodes to (whether *that* equals the
		// original value is C01's question, asked there against ref.Expect).
		canon := fresh(it.T)
		c.Ops(1)
		if err := p.Unmarshal(tree.Bytes(), canon.Interface()); err != nil {
			c.Outcome("decode-error")
			c.Violation(pre+"decode-error-on-model-bytes", fmt.Sprintf("bytes %s: %v", hx(tree.Bytes()), err))
			return
		}
		want := ref.FromReflect(it.T, canon.Elem())
		if ref.Str(it.T, want) != ref.Str(it.T, ref.Expect(cfg, it.T, "", v, false)) {
			c.Outcome("round-trip-differs(C01)")
		}
		for vi, b := range ref.Orderings(tree, 4) {
			c.Dim("decode-variants")
			out := fresh(it.T)
			c.Ops(1)
			if err := p.Unmarshal(b, out.Interface()); err != nil {
				c.Outcome("decode-error")
				c.Violation(pre+"decode-error-on-reordered", fmt.Sprintf("variant %d bytes %s: %v", vi, hx(b), err))
				return
			}
			got := ref.FromReflect(it.T, out.Elem())
			if path, detail, differ := ref.Diff(it.T, want, got); differ {
				c.Outcome("decode-mismatch")
				c.Violation(pre+"decode-mismatch:"+path, fmt.Sprintf("variant %d bytes %s: %s", vi, hx(b), detail))
				return
			}
		}
		c.Outcome("ok")
		if c.WantSample() {
			c.Sample(map[string]string{"cfg": cfg.String(), "type": it.T.String(), "value": vs, "bytes": hx(data)})
		}
	})
}

// encDiffClass abstracts how two encodings differ: lengths and first differing offset class.
func encDiffClass(model, real []byte) string {
	switch {
	case len(real) < len(model):
		return "shorter"
	case len(real) > len(model):
		return "longer"
	}
	return "same-length"
}
