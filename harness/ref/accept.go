package ref

import (
	"fmt"
	"strconv"
	"strings"
)

// Verdict is what the documentation lets plenc do with a type definition.
type Verdict int

const (
	MustAccept Verdict = iota // documented as supported: a working codec is required
	MustReject                // documented as unsupported/invalid: an error is required
	Either                    // undocumented corner: an error, or a codec that obeys every other property
)

func (v Verdict) String() string { return [...]string{"accept", "reject", "either"}[v] }

var acceptVisiting = map[*T]bool{}

func worst(a, b Verdict) Verdict {
	if a == MustReject || b == MustReject {
		return MustReject
	}
	if a == Either || b == Either {
		return Either
	}
	return MustAccept
}

func ptrToMap(t *T) bool {
	for t.K == KPtr {
		t = t.Elem
	}
	return t.K == KMap
}

// Accept says whether plenc is documented to accept (t, opt) under cfg (C08).
func Accept(cfg Cfg, t *T, opt string) (Verdict, string) {
	if opt == "intern" {
		opt = "" // consumed by the struct builder
	}
	switch t.K {
	case KInt, KInt8, KInt16, KInt32, KInt64:
		if opt == "" || opt == "flat" {
			return MustAccept, ""
		}
		return MustReject, "tag option " + opt + " has no codec for " + t.K.String()
	case KBool, KUint, KUint8, KUint16, KUint32, KUint64, KFloat32, KFloat64, KString, KTime,
		KNullInt, KNullBool, KNullFloat, KNullString, KNullTime:
		if opt == "" {
			return MustAccept, ""
		}
		return MustReject, "tag option " + opt + " has no codec for " + t.K.String()
	case KBytes:
		if opt == "" {
			return MustAccept, ""
		}
		return Either, "option-on-bytes"
	case KPtr:
		if ptrToMap(t) {
			return MustReject, "pointer to map cannot be encoded"
		}
		return Accept(cfg, t.Elem, opt)
	case KSlice:
		v, why := Accept(cfg, t.Elem, "")
		if v == MustReject {
			return v, why
		}
		if t.Elem.K == KMap {
			return MustReject, "slice of maps"
		}
		switch ClassOf(cfg, t.Elem, "") {
		case CF4, CF8:
			if t.Elem.K == KPtr {
				return MustReject, "slices of pointers to floats are not supported"
			}
		case CS:
			return MustReject, "slices of slices of length-delimited elements are not supported"
		case CR:
			return MustReject, "slices of protobuf repeated fields are not supported"
		case CBad:
			return MustReject, "element not encodable"
		}
		if opt != "" && opt != "proto" && v != Either {
			v, why = Either, "ignored-option-on-slice"
		}
		return v, why
	case KMap:
		if !t.Key.Comparable() {
			return MustReject, "map key not comparable"
		}
		kv, kwhy := Accept(cfg, t.Key, "")
		if kv == MustReject {
			return kv, kwhy
		}
		vv, vwhy := Accept(cfg, t.Elem, "")
		if vv == MustReject {
			return vv, vwhy
		}
		if ptrToMap(t.Elem) {
			return MustReject, "map nested directly as a map value cannot be encoded"
		}
		v, why := MustAccept, ""
		either := func(w string) {
			if v != Either {
				v, why = Either, w
			}
		}
		if ClassOf(cfg, t.Elem, "") == CR || ClassOf(cfg, t.Key, "") == CR {
			either("repeated-form-in-map-entry")
		}
		if kv == Either {
			either(kwhy)
		}
		if vv == Either {
			either(vwhy)
		}
		if t.Key.Contains(func(x *T) bool { return x.K == KPtr }) {
			either("pointer-in-map-key") // pointer identity keys cannot round-trip meaningfully
		}
		if opt != "" && opt != "proto" {
			either("ignored-option-on-map")
		}
		return v, why
	case KStruct:
		if t.Named != "" {
			if acceptVisiting[t] {
				return MustAccept, "" // recursion: judged where the type was first entered
			}
			acceptVisiting[t] = true
			defer delete(acceptVisiting, t)
		}
		v, ewhy := MustAccept, ""
		if opt != "" {
			v, ewhy = Either, "option-on-struct" // nothing documented
		}
		seen := map[int]bool{}
		for _, f := range t.Fields {
			if !Exported(f.Name) {
				continue
			}
			if f.NoTag {
				return MustReject, "no plenc tag on field " + f.Name
			}
			if f.Skip || f.Raw == "-" {
				continue
			}
			idx, fopt := f.Index, f.Opt
			if f.Raw != "" {
				num, o, _ := strings.Cut(f.Raw, ",")
				n, err := strconv.Atoi(num)
				if err != nil {
					return MustReject, "unparsable index " + strconv.Quote(num)
				}
				idx, fopt = n, o
			}
			if idx < 0 {
				return MustReject, "negative index"
			}
			if seen[idx] {
				return MustReject, fmt.Sprintf("index %d used twice", idx)
			}
			seen[idx] = true
			if idx == 0 && v != Either {
				v, ewhy = Either, "index-zero"
			}
			fv, why := Accept(cfg, f.T, fopt)
			if fv == MustReject {
				return fv, "field " + f.Name + ": " + why
			}
			if fv == Either && v != Either {
				v, ewhy = Either, why
			}
		}
		return v, ewhy
	}
	if t.K == KRaw {
		return MustReject, "unsupported kind " + t.Named
	}
	return MustReject, "unsupported kind"
}
