package props

import (
	"bytes"
	"fmt"
	"time"

	"verif/mc"
	"verif/ref"
)

func init() {
	register(&mc.Prop{
		ID: "C01",
		Rule: "every (configuration x type-in-position x boundary value) tuple of the bounded universe (DESIGN §6) is one case; " +
			"distinct = distinct case description; non-trivial = the value is not the zero value of its type and Marshal produced at least one byte",
		Assumptions: []string{"types bounded as in DESIGN §6; values are the boundary universe composed with at most two non-default fields per struct level",
			"expected values come from the reference model ref.Expect, never from plenc"},
		Work: c01Work,
		Post: func(a *mc.Agg) []string {
			return needDims(a, "pos:top", "pos:field", "pos:elem", "pos:mapval", "pos:mapkey", "pos:ptrfield", "cfg:default", "cfg:both", "build-order", "pos:intern-history")
		},
	})
}

func needDims(a *mc.Agg, dims ...string) []string {
	if a.Expired {
		return nil
	}
	var errs []string
	for _, d := range dims {
		if a.Dims[d] == 0 {
			errs = append(errs, "coverage dimension "+d+" was never exercised (generator bug)")
		}
	}
	return errs
}

func c01Work(c *mc.Ctx) {
	enumItems(c, append(append(withRecursive(ref.Universe(c.Tier)), ref.BigMaps(c.Tier)...), ref.InternHistory(c.Tier)...), c01Case)
	// the round trip must not depend on which types the instance built before
	unit := 1 << 20
	buildOrder(c, &unit, "C01", bytesProbe)
}

// enumCases walks the whole bounded universe, handing this worker's shard of
// (configuration, type-in-position, value) cases to f.
func enumCases(c *mc.Ctx, f func(c *mc.Ctx, cfg ref.Cfg, it ref.Item, v ref.V, vs string, undoc string)) {
	enumItems(c, ref.Universe(c.Tier), f)
}

// enumItems is enumCases over an explicit item list.
func enumItems(c *mc.Ctx, items []ref.Item, f func(c *mc.Ctx, cfg ref.Cfg, it ref.Item, v ref.V, vs string, undoc string)) {
	enumItemsCfg(c, items, cfgsFor, f)
}

// enumItemsCfg lets the caller choose the configurations per type.
func enumItemsCfg(c *mc.Ctx, items []ref.Item, cfgs func(*ref.T) []ref.Cfg, f func(c *mc.Ctx, cfg ref.Cfg, it ref.Item, v ref.V, vs string, undoc string)) {
	lvl := lvlFor(c.Tier)
	for ti, it := range items {
		if !c.Owns(ti) {
			continue
		}
		if c.Expired() {
			c.Note(fmt.Sprintf("worker %d stopped before type #%d of %d", c.W, ti, len(items)))
			return
		}
		vals := it.Vals
		if vals == nil {
			vals = ref.Values(it.T, lvl)
		}
		for _, cfg := range cfgs(it.T) {
			if ref.ClassOf(cfg, it.T, "") == ref.CR {
				continue // documented: the repeated form does not work outside a struct
			}
			verdict, why := ref.Accept(cfg, it.T, "")
			if verdict == ref.MustReject {
				continue
			}
			undoc := ""
			if verdict == ref.Either {
				undoc = "undoc:" + why + "|"
			}
			for _, v := range vals {
				vs := ref.Str(it.T, v)
				if !c.Begin(desc(cfg, it, vs, "")) {
					continue
				}
				f(c, cfg, it, v, vs, undoc)
			}
		}
	}
}

func c01Case(c *mc.Ctx, cfg ref.Cfg, it ref.Item, v ref.V, vs string, undoc string) {
	c.Dim("pos:" + it.Pos)
	if it.Pos == "intern-history" {
		// one decode of n distinct interned values copies the table n times (measured: 5 s for 2^13,
		// 22 s for 2^14 values, more CPU than that with the collector's threads)
		c.Allow(5 * time.Minute)
	}
	c.Dim("cfg:" + cfg.String())
	pre := fmt.Sprintf("%s|%s|%s|%s", cfg, it.Pos, it.T, undoc)
	c.Guard(pre, func() {
		p := NewPlenc(cfg)
		rv := ref.ToReflect(it.T, v)
		data, err := p.Marshal(nil, rv.Addr().Interface())
		if err != nil {
			c.Outcome("marshal-error")
			c.Violation(pre+"marshal-error", err.Error())
			return
		}
		if len(data) > 0 && vs != ref.Str(it.T, ref.Zero(it.T)) {
			c.NonTrivial()
		}
		c.Ops(2)
		out := fresh(it.T)
		if err := p.Unmarshal(data, out.Interface()); err != nil {
			c.Outcome("unmarshal-error")
			c.Violation(pre+"unmarshal-error", err.Error()+" data="+hx(data))
			return
		}
		if bad := badSliceHeader(out.Elem(), ""); bad != "" {
			c.Violation(pre+"decoded-slice-header-corrupt", bad+" data="+hx(data))
			return
		}
		got := ref.FromReflect(it.T, out.Elem())
		want := ref.Expect(cfg, it.T, "", v, false)
		if path, detail, differ := ref.Diff(it.T, want, got); differ {
			c.Outcome("mismatch")
			c.Violation(pre+"mismatch:"+path, detail+" data="+hx(data))
			return
		}
		// the same value handed to Marshal BY VALUE (the interface then holds the value itself, for
		// pointer-shaped structs directly in its data word) must round-trip too
		if it.T.K == ref.KPtr {
			// a pointer handed over "by value" IS the pointer form of its target type: nothing new
			c.Outcome("ok")
			return
		}
		c.Dim("by-value")
		data2, err := p.Marshal(nil, rv.Interface())
		if err != nil {
			c.Violation(pre+"marshal-error-by-value", err.Error())
			return
		}
		if !bytes.Equal(data, data2) {
			out2 := fresh(it.T)
			if err := p.Unmarshal(data2, out2.Interface()); err != nil {
				c.Violation(pre+"unmarshal-error-by-value", err.Error()+" data="+hx(data2))
				return
			}
			if path, detail, differ := ref.Diff(it.T, want, ref.FromReflect(it.T, out2.Elem())); differ {
				c.Violation(pre+"mismatch-by-value:"+path, detail+" by pointer="+hx(data)+" by value="+hx(data2))
				return
			}
		}
		if len(data) == 0 {
			c.Outcome("ok-empty")
		} else {
			c.Outcome("ok")
		}
		if c.WantSample() {
			c.Sample(map[string]string{"cfg": cfg.String(), "type": it.T.String(), "value": vs, "bytes": hx(data)})
		}
	})
}
