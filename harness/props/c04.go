package props

import (
	"bytes"
	"encoding/json"
	"fmt"
	"github.com/unravelin/null"
	"os"
	"reflect"
	"runtime"
	"runtime/metrics"
	"sort"
	"time"
	"unsafe"

	"github.com/philpearl/plenc"
	"github.com/philpearl/plenc/plenccodec"

	"verif/gen"
	"verif/mc"
	"verif/ref"
	"verif/sched"
)

func init() {
	register(&mc.Prop{
		ID: "C04",
		Rule: "per target type: (i) every byte string of length <=2 over all 256 values (thorough: <=3 with the third byte from the boundary alphabet and the type's tags); (ii) every valid encoding of the boundary-value corpus, and every input one deviation away from it: every truncation, every byte substituted by every byte of the alphabet B+tags, every token replaced by / preceded by every boundary varint token (thorough: two deviations on encodings <=12 bytes); " +
			"(iii) every token string of <=3 (thorough 4) tokens over tags x boundary varints x short payloads. Each input is decoded by Unmarshal and through the type's Descriptor + JSON outputter, three ways (capacity==length, spare capacity filled 0xAA, filled 0x55). " +
			"Oracles: no panic/fatal, terminates (watchdog), result and error-ness identical for the three presentations (no read outside the input), allocation <= 16 x element size x (len+1) + 16KiB, Codec.Read n in [0,len]. non-trivial = input that is not a valid encoding from the corpus",
		Assumptions: []string{"allocation is read from runtime/metrics /gc/heap/allocs:bytes around the call: large (>=32KiB) allocations are visible immediately, which is what an input-controlled count produces",
			"descriptors are the honest ones of the target type (hostile descriptors are out of scope)"},
		Work: c04Work,
		Post: func(a *mc.Agg) []string {
			return needDims(a, "gen:raw", "gen:valid", "gen:truncate", "gen:subst", "gen:token-replace", "gen:token-insert", "gen:token-strings", "path:unmarshal", "path:descriptor")
		},
	})
}

type c04Target struct {
	name    string
	cfg     ref.Cfg
	rt      reflect.Type
	model   *ref.T // nil for hand-written types
	newP    func() *plenc.Plenc
	corpus  [][][]byte // per valid encoding: its tokens
	eltSize int
	tags    []byte
	json    bool // value may hold NaN etc: compare with %v
	noDesc  bool // recursive types: Descriptor() never returns (C14's known finding), so only the typed paths are driven
}

func c04Plenc(cfg ref.Cfg, jsonAny bool) func() *plenc.Plenc {
	return func() *plenc.Plenc {
		p := NewPlenc(cfg)
		if jsonAny {
			p.RegisterCodec(reflect.TypeOf(map[string]any{}), plenccodec.JSONMapCodec{})
			p.RegisterCodec(reflect.TypeOf([]any{}), plenccodec.JSONArrayCodec{})
		}
		return p
	}
}

// tokens flattens an encoding tree into its literal tokens.
func tokens(n *ref.Node, out [][]byte) [][]byte {
	switch {
	case n.Seq != nil:
		for _, c := range n.Seq {
			out = tokens(c, out)
		}
	case n.Set != nil:
		for _, c := range n.Set {
			out = tokens(c, out)
		}
	default:
		if len(n.Lit) > 0 {
			out = append(out, n.Lit)
		}
	}
	return out
}

func c04Targets(tier string) []*c04Target {
	L := ref.Leaf
	s0 := ref.S0()
	every := ref.Struct(
		ref.Fld(1, L(ref.KInt)), ref.FldO(2, "flat", L(ref.KInt32)), ref.Fld(3, L(ref.KUint16)), ref.Fld(4, L(ref.KBool)), ref.Fld(5, L(ref.KFloat32)),
		ref.Fld(6, L(ref.KFloat64)), ref.FldO(7, "intern", L(ref.KString)), ref.Fld(8, L(ref.KBytes)), ref.Fld(9, L(ref.KTime)), ref.Fld(10, s0),
		ref.Fld(11, ref.Ptr(L(ref.KInt))), ref.Fld(12, ref.Slice(L(ref.KInt))), ref.Fld(13, ref.Slice(L(ref.KFloat64))), ref.Fld(14, ref.Slice(L(ref.KString))),
		ref.Fld(15, ref.Slice(s0)), ref.Fld(16, ref.Map(L(ref.KString), L(ref.KInt))), ref.Fld(17, ref.Slice(ref.Slice(L(ref.KUint)))), ref.Fld(18, L(ref.KNullString)),
		ref.Fld(19, ref.Slice(ref.Ptr(L(ref.KInt)))), ref.Fld(20, ref.Map(ref.S0K(), ref.Ptr(s0))))
	everyProto := ref.Struct(
		ref.Fld(1, L(ref.KInt)), ref.Fld(9, L(ref.KTime)), ref.Fld(10, s0), ref.Fld(14, ref.Slice(L(ref.KString))), ref.Fld(15, ref.Slice(s0)),
		ref.FldO(16, "proto", ref.Map(L(ref.KString), L(ref.KInt))), ref.Fld(17, ref.Slice(ref.Slice(L(ref.KUint)))), ref.Fld(21, ref.Slice(L(ref.KTime))))
	var out []*c04Target
	addModel := func(name string, cfg ref.Cfg, t *ref.T, lvl int, max int) {
		tg := &c04Target{name: name, cfg: cfg, rt: t.Reflect(), model: t, newP: c04Plenc(cfg, false), eltSize: int(t.Reflect().Size())}
		if t.K == ref.KSlice || t.K == ref.KMap {
			tg.eltSize = int(t.Reflect().Elem().Size()) + 16
			if t.K == ref.KMap {
				tg.eltSize += int(t.Reflect().Key().Size())
			}
		}
		tagset := map[byte]bool{}
		vals := ref.Values(t, lvl)
		if len(vals) > max {
			// keep the simplest and the richest values
			vals = append(vals[:max/2:max/2], vals[len(vals)-max/2:]...)
		}
		seen := map[string]bool{}
		for _, v := range vals {
			tree := ref.EncTop(cfg, t, v)
			b := tree.Bytes()
			if seen[string(b)] || len(b) > 200 {
				continue
			}
			seen[string(b)] = true
			tg.corpus = append(tg.corpus, tokens(tree, nil))
		}
		var collect func(t *ref.T)
		collect = func(t *ref.T) {
			switch t.K {
			case ref.KStruct:
				for _, f := range t.Fields {
					if f.Index < 16 {
						for wt := 0; wt < 8; wt++ {
							tagset[byte(f.Index<<3|wt)] = true
						}
					}
					collect(f.T)
				}
			case ref.KPtr, ref.KSlice:
				collect(t.Elem)
			case ref.KMap:
				collect(t.Key)
				collect(t.Elem)
			}
		}
		collect(t)
		for b := range tagset {
			tg.tags = append(tg.tags, b)
		}
		sort.Slice(tg.tags, func(i, j int) bool { return tg.tags[i] < tg.tags[j] })
		out = append(out, tg)
	}
	addModel("every", ref.Cfg{}, every, 1, 60)
	addModel("every-proto", ref.Cfg{ProtoTime: true, ProtoArrays: true}, everyProto, 1, 40)
	for _, t := range []*ref.T{ref.Slice(L(ref.KInt)), ref.Slice(L(ref.KFloat32)), ref.Slice(L(ref.KString)), ref.Slice(s0), ref.Map(L(ref.KString), L(ref.KInt)),
		ref.Map(ref.S0K(), L(ref.KString)), L(ref.KTime), ref.Ptr(s0), ref.Slice(ref.Ptr(L(ref.KInt))), ref.Slice(L(ref.KBytes)), s0, L(ref.KString), L(ref.KInt), L(ref.KFloat64),
		ref.Map(L(ref.KInt), ref.Slice(L(ref.KString))), ref.Slice(ref.Slice(L(ref.KUint)))} {
		addModel("top:"+t.String(), ref.Cfg{}, t, 2, 24)
	}
	addModel("top-prototime:time", ref.Cfg{ProtoTime: true}, L(ref.KTime), 2, 24)
	// hand-written types: corpus from the real encoder, one token per byte run
	addReal := func(name string, vals []any, jsonAny bool, elt int) {
		tg := &c04Target{name: name, rt: reflect.TypeOf(vals[0]).Elem(), newP: c04Plenc(ref.Cfg{}, jsonAny), eltSize: elt, json: jsonAny, noDesc: !jsonAny}
		p := tg.newP()
		for _, v := range vals {
			b, err := p.Marshal(nil, v)
			if err != nil {
				panic(err)
			}
			var toks [][]byte
			for i := range b {
				toks = append(toks, b[i:i+1])
			}
			tg.corpus = append(tg.corpus, toks)
		}
		for i := 1; i <= 3; i++ {
			for wt := 0; wt < 8; wt++ {
				tg.tags = append(tg.tags, byte(i<<3|wt))
			}
		}
		out = append(out, tg)
	}
	addReal("recursive:R", []any{&gen.R{}, &gen.R{A: []gen.R{{B: 1, C: "x"}, {A: []gen.R{{B: 2}}}}, B: 3, C: "top"}}, false, 56)
	addReal("recursive:A1", []any{&gen.A1{B: &gen.B1{A: []gen.A1{{X: 1}}, Y: "y"}, X: 5}}, false, 32)
	addReal("recursive:M", []any{&gen.M{Kids: map[string]gen.M{"k": {V: 2, Kids: map[string]gen.M{"kk": {V: 3}}}}, V: 1}}, false, 64)
	type withJSON struct {
		M map[string]any `plenc:"1"`
		A []any          `plenc:"2"`
		Z int            `plenc:"3"`
	}
	addReal("json-any", []any{
		&withJSON{M: map[string]any{"a": 1, "b": "s", "c": 1.5, "d": true, "e": nil, "f": []any{1, "x", nil, map[string]any{"k": json.Number("12")}}, "g": map[string]any{}}, A: []any{"x", 2, nil}, Z: 7},
		&withJSON{M: map[string]any{"": []any{}}, A: []any{map[string]any{"k": []any{false}}}},
	}, true, 48)
	// the JSON-any codecs as the top-level type, with a string / number / nested container as the very
	// last bytes of the input (an overrun by one byte then leaves the buffer, not just the entry)
	addReal("json-map", []any{&map[string]any{"a": "x"}, &map[string]any{"k": json.Number("12")}, &map[string]any{"m": map[string]any{"": "y"}}, &map[string]any{"n": nil, "l": []any{"z"}}}, true, 48)
	addReal("json-array", []any{&[]any{"x"}, &[]any{1, json.Number("1.5")}, &[]any{[]any{"q"}}, &[]any{map[string]any{"k": "v"}}}, true, 48)
	// every null type, in fields, behind pointers and as map values, and the BigQuery timestamp codec
	// (registered under the tag name the README uses) - their Read methods have error paths of their own
	type nulls struct {
		I  null.Int               `plenc:"1"`
		B  null.Bool              `plenc:"2"`
		F  null.Float             `plenc:"3"`
		S  null.String            `plenc:"4"`
		T  null.Time              `plenc:"5"`
		Q  time.Time              `plenc:"6,flattime"`
		P  *null.Int              `plenc:"7"`
		M  map[string]null.String `plenc:"8"`
		LQ []null.Int             `plenc:"9"`
		SI null.String            `plenc:"10,intern"`
	}
	nullsP := func() *plenc.Plenc {
		p := NewPlenc(ref.Cfg{})
		p.RegisterCodecWithTag(reflect.TypeOf(time.Time{}), "flattime", plenccodec.BQTimestampCodec{})
		return p
	}
	{
		pi := null.IntFrom(-3)
		vals := []any{&nulls{}, &nulls{I: null.IntFrom(7), B: null.BoolFrom(true), F: null.FloatFrom(1.5), S: null.StringFrom("s"), T: null.TimeFrom(time.Unix(5, 6).UTC()),
			Q: time.Unix(1600000000, 5000).UTC(), P: &pi, M: map[string]null.String{"k": null.StringFrom("v"), "": {}}, LQ: []null.Int{null.IntFrom(1), {}}, SI: null.StringFrom("i")},
			&nulls{I: null.IntFrom(0), B: null.BoolFrom(false), F: null.FloatFrom(0), S: null.StringFrom(""), T: null.TimeFrom(time.Time{}), SI: null.StringFrom("")}}
		tg := &c04Target{name: "nulls+bqtimestamp", rt: reflect.TypeOf(nulls{}), newP: nullsP, eltSize: 256}
		p := nullsP()
		for _, v := range vals {
			b, err := p.Marshal(nil, v)
			if err != nil {
				panic(err)
			}
			var toks [][]byte
			for i := range b {
				toks = append(toks, b[i:i+1])
			}
			tg.corpus = append(tg.corpus, toks)
		}
		for i := 1; i <= 10; i++ {
			for wt := 0; wt < 8; wt++ {
				tg.tags = append(tg.tags, byte(i<<3|wt))
			}
		}
		out = append(out, tg)
	}
	return out
}

var c04Alphabet = []byte{0x00, 0x01, 0x02, 0x03, 0x07, 0x08, 0x0a, 0x0b, 0x0d, 0x7f, 0x80, 0x81, 0xff}

func c04Varints() [][]byte {
	var out [][]byte
	for _, u := range []uint64{0, 1, 2, 127, 128, 1 << 31, 1<<32 - 1, 1<<63 - 1, 1 << 63, ^uint64(0) - 10, ^uint64(0)} {
		out = append(out, ref.Uvarint(nil, u))
	}
	out = append(out, append(bytes.Repeat([]byte{0x80}, 9), 0x01), bytes.Repeat([]byte{0xff}, 11), bytes.Repeat([]byte{0x80}, 10), append(bytes.Repeat([]byte{0xff}, 9), 0x7f))
	return out
}

type c04Run struct {
	c        *mc.Ctx
	tg       *c04Target
	p        *plenc.Plenc
	codec    plenccodec.Codec
	desc     plenccodec.Descriptor
	samples  []metrics.Sample
	inputs   int64
	scratch  []byte
	lastKind string
	maxWork  int64 // largest observed library calls per input byte, x100
}

// The "terminates promptly" oracle: every input byte can open at most one field, element or
// entry, each of which costs a bounded number of library function calls (codec nesting depth).
const workPerByte, workSlack = 64, 256

func c04Work(c *mc.Ctx) {
	sched.ProfOn = true
	targets := c04Targets(c.Tier)
	unit := 0
	for _, tg := range targets {
		r := &c04Run{c: c, tg: tg, samples: []metrics.Sample{{Name: "/gc/heap/allocs:bytes"}}}
		fresh := func() {
			r.p = tg.newP()
			codec, err := r.p.CodecForType(tg.rt)
			if err != nil {
				c.MachineErr("C04: target " + tg.name + ": " + err.Error())
				return
			}
			r.codec = codec
			r.desc = plenccodec.Descriptor{Type: -1}
			if tg.noDesc {
				return
			}
			func() {
				defer func() {
					if rec := recover(); rec != nil {
						r.desc = plenccodec.Descriptor{Type: -1}
					}
				}()
				r.desc = codec.Descriptor()
			}()
		}
		// unit = a block of inputs announced together; inputs inside are decided individually
		block := func(kind, what string, gen func(emit func([]byte))) {
			unit++
			if !c.Owns(unit) {
				return
			}
			if c.Expired() {
				c.Note("stopped before " + tg.name + " " + kind)
				return
			}
			if !c.Begin(fmt.Sprintf(`{"target":%q,"gen":%q,"what":%q}`, tg.name, kind, what)) {
				return
			}
			c.AddEvals(-1)
			if r.p == nil {
				fresh()
			}
			if r.codec == nil {
				return
			}
			r.lastKind = kind
			c.Dim("gen:" + kind)
			gen(func(in []byte) { r.one(kind, in) })
			c.Outcome("block-done")
			c.Max("max_library_calls_per_input_byte_x100", r.maxWork)
		}
		alpha := append(append([]byte(nil), c04Alphabet...), tg.tags...)
		// (i) raw strings
		for b0 := 0; b0 < 256; b0 += 16 {
			b0 := b0
			block("raw", fmt.Sprintf("first byte %#02x..%#02x", b0, b0+15), func(emit func([]byte)) {
				if b0 == 0 {
					emit(nil)
				}
				for x := b0; x < b0+16; x++ {
					emit([]byte{byte(x)})
					for y := 0; y < 256; y++ {
						emit([]byte{byte(x), byte(y)})
						if c.Tier == "thorough" {
							for _, z := range alpha {
								emit([]byte{byte(x), byte(y), z})
							}
						}
					}
				}
			})
		}
		varints := c04Varints()
		// (ii) corpus and deviations
		for ci, toks := range tg.corpus {
			toks := toks
			enc := bytes.Join(toks, nil)
			block("valid", hx(enc), func(emit func([]byte)) { emit(enc) })
			block("truncate", hx(enc), func(emit func([]byte)) {
				for cut := 0; cut < len(enc); cut++ {
					emit(enc[:cut])
				}
			})
			block("subst", hx(enc), func(emit func([]byte)) {
				for i := range enc {
					for _, b := range alpha {
						if b == enc[i] {
							continue
						}
						m := append([]byte(nil), enc...)
						m[i] = b
						emit(m)
					}
					// off by one and two in every byte (a length, count or tag that is only slightly wrong
					// passes a bound check that is only slightly loose)
					for _, d := range []byte{1, 2, 0xff, 0xfe} {
						m := append([]byte(nil), enc...)
						m[i] += d
						emit(m)
					}
				}
			})
			block("token-replace", hx(enc), func(emit func([]byte)) {
				for i := range toks {
					for _, v := range varints {
						m := bytes.Join(toks[:i], nil)
						m = append(m, v...)
						m = append(m, bytes.Join(toks[i+1:], nil)...)
						emit(m)
					}
				}
			})
			block("token-insert", hx(enc), func(emit func([]byte)) {
				for i := 0; i <= len(toks); i++ {
					for _, v := range varints {
						m := bytes.Join(toks[:i], nil)
						m = append(m, v...)
						m = append(m, bytes.Join(toks[i:], nil)...)
						emit(m)
					}
					for _, tb := range tg.tags {
						m := bytes.Join(toks[:i], nil)
						m = append(m, tb)
						m = append(m, bytes.Join(toks[i:], nil)...)
						emit(m)
					}
				}
			})
			if c.Tier == "thorough" && len(enc) <= 12 && ci < 12 {
				block("two-deviations", hx(enc), func(emit func([]byte)) {
					for i := range enc {
						for _, b := range alpha {
							for j := i + 1; j < len(enc); j++ {
								for _, b2 := range c04Alphabet {
									m := append([]byte(nil), enc...)
									m[i], m[j] = b, b2
									emit(m)
								}
							}
							for cut := i + 1; cut < len(enc); cut++ {
								m := append([]byte(nil), enc[:cut]...)
								m[i] = b
								emit(m)
							}
						}
					}
				})
			}
		}
		// (iii) token strings
		var alphaToks [][]byte
		for _, tb := range tg.tags {
			alphaToks = append(alphaToks, []byte{tb})
		}
		for _, v := range varints {
			alphaToks = append(alphaToks, v)
		}
		alphaToks = append(alphaToks, []byte("a"), []byte{0, 0, 0, 0}, []byte{0, 0, 0, 0, 0, 0, 0, 0})
		depth := 3
		if c.Tier == "thorough" && len(alphaToks) <= 80 {
			depth = 4
		}
		if len(alphaToks) > 120 {
			depth = 2
		}
		for i0 := range alphaToks {
			i0 := i0
			block("token-strings", fmt.Sprintf("first token %s, <=%d tokens", hx(alphaToks[i0]), depth), func(emit func([]byte)) {
				var rec func(b []byte, d int)
				rec = func(b []byte, d int) {
					emit(b)
					if d < depth {
						for _, t := range alphaToks {
							rec(append(b[:len(b):len(b)], t...), d+1)
						}
					}
				}
				rec(append([]byte(nil), alphaToks[i0]...), 1)
			})
		}
		// (iv) amplification: one field occurring many times. A big occurrence followed by (or
		// following, or interleaved with) many minimal occurrences of the same field: the work done
		// must stay linear in the input length, i.e. no per-occurrence cost that depends on what an
		// EARLIER occurrence left behind (capacity, map size). Decided by the deterministic work
		// counter (library function entries + loop iterations), not by the clock.
		if tg.model != nil && tg.model.K == ref.KStruct {
			big, many := 600, 600
			if c.Tier == "thorough" {
				big, many = 3000, 3000
			}
			for _, f := range tg.model.Fields {
				f := f
				bv, ok := ref.Big(f.T, big)
				if !ok {
					continue
				}
				block("amplify", fmt.Sprintf("field %d (%s): %d elements and %d minimal occurrences", f.Index, f.T, big, many), func(emit func([]byte)) {
					// the field on its own (a one-field struct with the same index and option)
					bigEnc := ref.EncTop(tg.cfg, ref.Struct(f), ref.V{E: []ref.V{bv}}).Bytes()
					if len(bigEnc) == 0 {
						return
					}
					tagLen := 1
					if f.Index >= 16 {
						tagLen = 2
					}
					small := append(append([]byte(nil), bigEnc[:tagLen]...), 0x00)
					other := []byte{0x08, 0x01} // field 1 is a varint in every model target
					var smalls, mixed []byte
					for i := 0; i < many; i++ {
						smalls = append(smalls, small...)
						mixed = append(append(mixed, small...), other...)
					}
					emit(append(append([]byte(nil), bigEnc...), smalls...))
					emit(append(append([]byte(nil), smalls...), bigEnc...))
					emit(append(append([]byte(nil), bigEnc...), mixed...))
					emit(append(append(append([]byte(nil), bigEnc...), smalls...), bigEnc...))
				})
			}
		}
		_ = unsafe.Pointer(nil)
	}
}

// decodeOnce runs one decode path on one presentation and returns an outcome string.
func (r *c04Run) decode(path string, in []byte) (res string, n int, readErr error) {
	switch path {
	case "unmarshal":
		out := reflect.New(r.tg.rt)
		if err := r.p.Unmarshal(in, out.Interface()); err != nil {
			return "error", 0, nil
		}
		if r.tg.model != nil {
			return "ok:" + ref.Str(r.tg.model, ref.FromReflect(r.tg.model, out.Elem())), 0, nil
		}
		// a deterministic deep rendering (encoding/json fails on NaN / Inf, fmt prints pointer addresses)
		return "ok:" + canon(out.Elem()), 0, nil
	case "read":
		out := reflect.New(r.tg.rt)
		n, err := r.codec.Read(in, out.UnsafePointer(), r.codec.WireType())
		if err != nil {
			return "error", n, err
		}
		return "ok", n, nil
	default:
		var j plenccodec.JSONOutput
		d := r.desc
		if err := d.Read(&j, in); err != nil {
			return "error", 0, nil
		}
		return "ok:" + string(j.Done()), 0, nil
	}
}

func (r *c04Run) one(kind string, in []byte) {
	c := r.c
	if !c.SubBegin(in) {
		return
	}
	r.inputs++
	c.AddEvals(1)
	c.Count("states", 1)
	if kind != "valid" {
		c.NonTrivialKey(r.tg.name + "|" + string(in))
	}
	n := len(in)
	exact := make([]byte, n)
	copy(exact, in)
	spare := func(fill byte) []byte {
		b := make([]byte, n+48)
		for i := range b {
			b[i] = fill
		}
		copy(b, in)
		return b[:n]
	}
	limit := uint64(16*r.tg.eltSize*(n+1) + 16<<10)
	paths := []string{"unmarshal", "read"}
	if r.desc.Type >= 0 {
		paths = append(paths, "descriptor")
	}
	for _, path := range paths {
		if path != "read" {
			c.Dim("path:" + path)
		}
		pre := fmt.Sprintf("%s|%s|", r.tg.name, path)
		var res [3]string
		var panicked bool
		for pi, buf := range [][]byte{exact, spare(0xAA), spare(0x55)} {
			var before uint64
			if pi == 0 {
				metrics.Read(r.samples)
				before = r.samples[0].Value.Uint64()
			}
			var rn int
			var rerr error
			c.Ops(1)
			w0 := sched.Work
			sched.ProfReset()
			if c.Guard(pre, func() { res[pi], rn, rerr = r.decode(path, buf) }) {
				panicked = true
				// the instance may be poisoned (e.g. a lock held): start afresh
				r.p = r.tg.newP()
				r.codec, _ = r.p.CodecForType(r.tg.rt)
				break
			}
			if pi == 0 {
				// work: library function entries during the call, linear in the input length
				if os.Getenv("VERIF_C04_DEBUG") != "" && kind == "amplify" {
					if f, err := os.OpenFile(os.Getenv("VERIF_C04_DEBUG"), os.O_APPEND|os.O_CREATE|os.O_WRONLY, 0o644); err == nil {
						fmt.Fprintf(f, "AMPLIFY %s %s n=%d work=%d res=%.40s in=%.24s\n", r.tg.name, path, n, sched.Work-w0, res[pi], hx(in))
						f.Close()
					}
				}
				if w := sched.Work - w0; w > uint64(workPerByte*(n+1)+workSlack) {
					// where the work went: the library function with the most entries and loop iterations
					top, topN := sched.ProfTop()
					// is it this input, or what the instance has been through before? Repeat on a fresh
					// instance that has only built its codecs and decoded one valid encoding.
					saveP, saveC := r.p, r.codec
					r.p = r.tg.newP()
					r.codec, _ = r.p.CodecForType(r.tg.rt)
					if len(r.tg.corpus) > 0 {
						c.Guard(pre, func() { r.decode(path, bytes.Join(r.tg.corpus[0], nil)) })
					}
					w1 := sched.Work
					sched.ProfReset()
					c.Guard(pre, func() { r.decode(path, buf) })
					w2 := sched.Work - w1
					if w2 > uint64(workPerByte*(n+1)+workSlack) {
						top, topN = sched.ProfTop()
						c.Violation(pre+"work-not-linear-in-input@"+top, fmt.Sprintf("input %s (%d bytes): %d library function calls and loop iterations on a fresh instance (%d of them in %s), bound %d", hx(in), n, w2, topN, top, workPerByte*(n+1)+workSlack))
						r.p, r.codec = saveP, saveC
					} else {
						// the fresh instance replaces the old one: the cost came from the old one's history
						c.Violation(pre+"work-depends-on-instance-history@"+top, fmt.Sprintf("input %s (%d bytes): %d units of work on the long-lived instance (after %d earlier inputs; %d of them in %s), %d on a fresh one", hx(in), n, w, r.inputs, topN, top, w2))
					}
				} else if q := int64(w) * 100 / int64(n+1); n >= 64 && q > r.maxWork {
					r.maxWork = q
				}
				metrics.Read(r.samples)
				if used := r.samples[0].Value.Uint64() - before; used > limit {
					// the cheap counter is flushed in span-sized steps: confirm with an exact
					// measurement (ReadMemStats flushes every cache) of a repeat of the same call
					var ms runtime.MemStats
					runtime.ReadMemStats(&ms)
					b0 := ms.TotalAlloc
					c.Guard(pre, func() { r.decode(path, buf) })
					runtime.ReadMemStats(&ms)
					if exact := ms.TotalAlloc - b0; exact > limit {
						c.Violation(pre+"allocation-blow-up", fmt.Sprintf("input %s (%d bytes) allocated %d bytes, bound %d", hx(in), n, exact, limit))
					}
				}
			}
			if path == "read" && rerr == nil && (rn < 0 || rn > n) {
				c.Violation(pre+"read-consumed-out-of-range", fmt.Sprintf("input %s: Read returned n=%d for %d bytes", hx(in), rn, n))
			}
			if !bytes.Equal(buf, in) {
				c.Violation(pre+"input-modified", fmt.Sprintf("input %s became %s", hx(in), hx(buf)))
			}
		}
		if panicked {
			c.Outcome("panic")
			continue
		}
		if res[0] != res[1] || res[1] != res[2] {
			c.Violation(pre+"reads-outside-input", fmt.Sprintf("input %s decodes differently depending on what follows it in memory: exact-capacity %s | 0xAA %s | 0x55 %s",
				hx(in), trunc200(res[0]), trunc200(res[1]), trunc200(res[2])))
			c.Outcome("outside-read")
			continue
		}
		if res[0] == "error" {
			c.Outcome("error")
		} else {
			c.Outcome("value")
		}
	}
	if r.inputs%50000 == 1 {
		c.Sample(map[string]string{"target": r.tg.name, "gen": kind, "input": hx(in)})
	}
	if r.inputs%4096 == 0 {
		c.Heartbeat()
	}
}
