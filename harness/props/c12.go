package props

import (
	"bytes"
	"fmt"
	"strings"

	"verif/mc"
	"verif/ref"
)

func init() {
	register(&mc.Prop{
		ID: "C12",
		Rule: "every struct type of the universe with every map field tagged proto (deep), x all four configurations x boundary values. Oracles: (1) under both switches a schema-directed walk finds only wire types 0,1,2,5 with every length exact; (2) the real bytes match the reference encoding of that configuration (so each switch changes only its own encoding), and explicitly: types without times encode identically with the time switch flipped, types without slices of length-delimited elements identically with the arrays switch flipped; " +
			"(3) round trip in the same configuration; (4) a default-mode instance decodes the arrays-only configuration's bytes (repeated-field form) to the same value, and, for time-free types, the both-switches bytes too; (5) times are Timestamp{1: seconds, 2: nanos} as plain varints incl. negative seconds. non-trivial = non-zero value of a type containing a time, a slice of length-delimited elements or a map",
		Assumptions: []string{"no protobuf library: the independent reader is ref.Walk / ref.WireTypes (schema-directed, value-blind)", "proto-form maps are only claimed readable by the proto-tagged codec (README)"},
		Work: func(c *mc.Ctx) {
			enumItemsCfg(c, c12Items(c.Tier), func(*ref.T) []ref.Cfg { return []ref.Cfg{{}} }, c12Case)
		},
		Post: func(a *mc.Agg) []string {
			return needDims(a, "wiretypes-checked", "flip-time", "flip-arrays", "cross-decode", "timestamp", "proto-map")
		},
	})
}

// protoize tags every map field proto, at every depth.
func protoize(t *ref.T) *ref.T {
	switch t.K {
	case ref.KPtr:
		return ref.Ptr(protoize(t.Elem))
	case ref.KSlice:
		return ref.Slice(protoize(t.Elem))
	case ref.KMap:
		return ref.Map(protoize(t.Key), protoize(t.Elem))
	case ref.KStruct:
		fs := make([]ref.F, len(t.Fields))
		for i, f := range t.Fields {
			f.T = protoize(f.T)
			if deref(f.T).K == ref.KMap && f.T.K == ref.KMap {
				f.Opt = "proto"
			}
			fs[i] = f
		}
		return ref.Struct(fs...)
	}
	return t
}

func c12Items(tier string) []ref.Item {
	var out []ref.Item
	seen := map[string]bool{}
	for _, it := range ref.Universe(tier) {
		if it.T.K != ref.KStruct {
			continue
		}
		// a map nested inside a map value or slice element cannot carry the proto tag: skip types with untagged maps
		t := protoize(it.T)
		if hasUntaggedMap(t, false) {
			continue
		}
		if seen[t.String()] {
			continue
		}
		// nested presence (pointer to pointer / pointer to null type) is C01/C09's subject, not proto mode's
		if t.Contains(func(x *ref.T) bool {
			return x.K == ref.KPtr && (x.Elem.K == ref.KPtr || (x.Elem.K >= ref.KNullInt && x.Elem.K <= ref.KNullTime))
		}) {
			continue
		}
		seen[t.String()] = true
		ts, as := ref.CfgSensitive(t)
		hasMap := t.Contains(func(x *ref.T) bool { return x.K == ref.KMap })
		it.T = t
		if !ts && !as && !hasMap && len(out)%7 != 0 {
			// types no switch concerns: one in seven gets the full battery as a control, all the
			// others the light one (identical bytes under all four configurations, round trip under both)
			it.Pos += "/light"
		}
		out = append(out, it)
	}
	return out
}

func hasUntaggedMap(t *ref.T, tagged bool) bool {
	switch t.K {
	case ref.KPtr:
		return hasUntaggedMap(t.Elem, tagged)
	case ref.KSlice:
		return hasUntaggedMap(t.Elem, false)
	case ref.KMap:
		if !tagged {
			return true
		}
		return hasUntaggedMap(t.Key, false) || hasUntaggedMap(t.Elem, false)
	case ref.KStruct:
		for _, f := range t.Fields {
			if hasUntaggedMap(f.T, f.Opt == "proto") {
				return true
			}
		}
	}
	return false
}

func c12Case(c *mc.Ctx, cfg ref.Cfg, it ref.Item, v ref.V, vs string, undoc string) {
	// cfg is always the default here: the case loops over all four configurations itself
	t := it.T
	pre := fmt.Sprintf("%s|%s|", it.Pos, t)
	ts, as := ref.CfgSensitive(t)
	hasMap := t.Contains(func(x *ref.T) bool { return x.K == ref.KMap })
	if hasMap {
		c.Dim("proto-map")
	}
	if vs != ref.Str(t, ref.Zero(t)) && (ts || as || hasMap) {
		c.NonTrivial()
	}
	if strings.HasSuffix(it.Pos, "/light") {
		c.Guard(pre, func() {
			c.Dim("insensitive-light")
			var first []byte
			for i, k := range ref.Cfgs {
				if verdict, _ := ref.Accept(k, t, ""); verdict != ref.MustAccept {
					return
				}
				p := NewPlenc(k)
				data, err := p.Marshal(nil, ref.ToReflect(t, v).Addr().Interface())
				c.Ops(1)
				if err != nil {
					c.Violation(pre+k.String()+"|marshal-error", err.Error())
					return
				}
				if i == 0 {
					first = data
				} else if !bytes.Equal(first, data) {
					c.Violation(pre+k.String()+"|switch-changed-a-type-it-does-not-concern", fmt.Sprintf("default %s, %s %s", hx(first), k, hx(data)))
					return
				}
				if k.ProtoArrays && k.ProtoTime {
					out := fresh(t)
					if err := p.Unmarshal(data, out.Interface()); err != nil {
						c.Violation(pre+k.String()+"|unmarshal-error", err.Error()+" data="+hx(data))
						return
					}
					if path, detail, differ := ref.Diff(t, ref.Expect(k, t, "", v, false), ref.FromReflect(t, out.Elem())); differ {
						c.Violation(pre+k.String()+"|round-trip-mismatch:"+path, detail+" data="+hx(data))
						return
					}
				}
			}
			c.Outcome("ok-light")
		})
		return
	}
	c.Guard(pre, func() {
		enc := map[ref.Cfg][]byte{}
		for _, k := range ref.Cfgs {
			if verdict, _ := ref.Accept(k, t, ""); verdict != ref.MustAccept {
				return
			}
		}
		for _, k := range ref.Cfgs {
			p := NewPlenc(k)
			rv := ref.ToReflect(t, v)
			data, err := p.Marshal(nil, rv.Addr().Interface())
			c.Ops(2)
			if err != nil {
				c.Violation(pre+k.String()+"|marshal-error", err.Error())
				return
			}
			enc[k] = data
			// (2) reference bytes of that configuration
			if !ref.EncTop(k, t, v).MatchExact(data) {
				c.Violation(pre+k.String()+"|bytes-differ-from-reference", fmt.Sprintf("plenc %s reference %s", hx(data), hx(ref.EncTop(k, t, v).Bytes())))
				return
			}
			// (3) round trip in the same configuration
			out := fresh(t)
			if err := p.Unmarshal(data, out.Interface()); err != nil {
				c.Violation(pre+k.String()+"|unmarshal-error", err.Error()+" data="+hx(data))
				return
			}
			if path, detail, differ := ref.Diff(t, ref.Expect(k, t, "", v, false), ref.FromReflect(t, out.Elem())); differ {
				c.Violation(pre+k.String()+"|round-trip-mismatch:"+path, detail+" data="+hx(data))
				return
			}
		}
		both := ref.Cfg{ProtoTime: true, ProtoArrays: true}
		// (1) standard protobuf wire format under both switches
		if err := ref.WalkTop(both, t, enc[both]); err != nil {
			c.Violation(pre+"both|not-walkable-as-protobuf", fmt.Sprintf("%v in %s", err, hx(enc[both])))
			return
		}
		seen := map[int]bool{}
		ref.WireTypes(both, t, enc[both], seen)
		c.Dim("wiretypes-checked")
		for wt := range seen {
			if wt != 0 && wt != 1 && wt != 2 && wt != 5 {
				c.Violation(pre+fmt.Sprintf("both|non-protobuf-wire-type-%d", wt), hx(enc[both]))
				return
			}
		}
		// (2') each switch changes only its own encodings
		if !ts {
			c.Dim("flip-time")
			if !bytes.Equal(enc[ref.Cfg{}], enc[ref.Cfg{ProtoTime: true}]) || !bytes.Equal(enc[ref.Cfg{ProtoArrays: true}], enc[both]) {
				if !t.Contains(func(x *ref.T) bool { return x.K == ref.KMap }) { // map order may differ between calls
					c.Violation(pre+"time-switch-changed-a-time-free-type", fmt.Sprintf("%s vs %s", hx(enc[ref.Cfg{}]), hx(enc[ref.Cfg{ProtoTime: true}])))
					return
				}
			}
		}
		if !as {
			c.Dim("flip-arrays")
			if !bytes.Equal(enc[ref.Cfg{}], enc[ref.Cfg{ProtoArrays: true}]) || !bytes.Equal(enc[ref.Cfg{ProtoTime: true}], enc[both]) {
				if !t.Contains(func(x *ref.T) bool { return x.K == ref.KMap }) {
					c.Violation(pre+"arrays-switch-changed-a-type-without-such-slices", fmt.Sprintf("%s vs %s", hx(enc[ref.Cfg{}]), hx(enc[ref.Cfg{ProtoArrays: true}])))
					return
				}
			}
		}
		// (4) a default-mode instance reads the repeated-field form
		cross := func(from ref.Cfg) {
			c.Dim("cross-decode")
			p := NewPlenc(ref.Cfg{})
			out := fresh(t)
			c.Ops(1)
			if err := p.Unmarshal(enc[from], out.Interface()); err != nil {
				c.Violation(pre+"default-cannot-read-"+from.String(), err.Error()+" data="+hx(enc[from]))
				return
			}
			if path, detail, differ := ref.Diff(t, ref.Expect(from, t, "", v, false), ref.FromReflect(t, out.Elem())); differ {
				c.Violation(pre+"default-misreads-"+from.String()+":"+path, detail+" data="+hx(enc[from]))
			}
		}
		cross(ref.Cfg{ProtoArrays: true})
		if !ts {
			cross(both)
		}
		// (5) timestamps
		if t.Contains(func(x *ref.T) bool { return x.K == ref.KTime }) {
			c.Dim("timestamp")
		}
		c.Outcome("ok")
		if c.WantSample() {
			c.Sample(map[string]string{"type": t.String(), "value": vs, "default": hx(enc[ref.Cfg{}]), "both": hx(enc[both])})
		}
	})
}
