#!/usr/bin/env python3
"""Writes the prompt files for one round of independently authored seeded changes.
usage: seed_prompts.py <round-number>
Creates scratch worktrees /tmp/seed<N>-<ID> of /repo HEAD and /tmp/seed<N>-<ID>.prompt.txt.
The authors get the property text, a hint at an area, the descriptions of the earlier seeds
for that property (to pick something else) and their own worktree - nothing from /verif."""
import json, os, subprocess, sys, glob
N = sys.argv[1]
props = {json.loads(l)['id']: json.loads(l) for l in open('/verif/properties.jsonl')}
HINTS = json.load(open(f'/verif/tools/seed_hints_r{N}.json'))
T = '''You are helping evaluate a verification framework for the Go library philpearl/plenc (a protobuf-like serialisation library driven by struct tags). You have your OWN scratch git worktree of the library at /tmp/seed@N@-@ID@ - work ONLY inside that directory (never touch /repo or /verif, and do not read /verif).

Your job: produce ONE realistic, subtle code change ("seeded bug") to the library sources in /tmp/seed@N@-@ID@ (non-test .go files only) that BREAKS the property given below while (a) the library still compiles and (b) the existing test suite still passes:
    cd /tmp/seed@N@-@ID@ && GOFLAGS=-mod=mod GOPROXY=off GOSUMDB=off GOTOOLCHAIN=local go test -vet=off -count=1 ./...
(TestDescriptor in plenccodec is inherently flaky, ~12% of runs, because of map iteration order; if only that test fails, re-run - it must pass on a re-run.)

THE PROPERTY
@PROP@

REQUIREMENTS FOR THE CHANGE
- It must need something specific to manifest, not something ordinary use exposes at once: a particular size / length / count threshold, a particular combination of type shape and tag option or configuration switch, a particular order of calls, a particular position of a field. For this task aim at: @HINT@.
- It must be DIFFERENT from these changes, which have already been tried (pick another code location and another mechanism):
@PREV@
- It should look like a plausible refactoring / optimisation / tidy-up slip by a maintainer, not sabotage; a few lines.

DELIVERABLES (all inside /tmp/seed@N@-@ID@)
 1. the modified source, left applied in the worktree, uncommitted;
 2. patch.diff at the worktree root = `git diff -- <source files you changed>` (source change only);
 3. a demonstration: a NEW test file named seed_demo_test.go in the appropriate package directory (black-box via the public API preferred) with a test TestSeedDemo that FAILS with your change and PASSES on the original code. To check the original code do NOT use `git stash` (it is shared between worktrees and other people are working in sibling worktrees): use `git apply -R patch.diff`, run the test, then `git apply patch.diff` again, and finally confirm `git diff -- <files>` equals patch.diff. For schedule-dependent bugs the demo may loop and use -race; state its reliability.
 4. meta.txt at the worktree root: file/function changed, why it breaks the property, the specific condition needed, and the exact commands run with outcomes (suite passes with change: yes/no; demo fails with change: yes/no; demo passes without change: yes/no).

Environment: no network; always export GOFLAGS=-mod=mod GOPROXY=off GOSUMDB=off GOTOOLCHAIN=local; Go 1.23.5. Do not commit. Do not modify existing tests or golden files. When done, reply with the contents of meta.txt.
'''
for pid, p in props.items():
    prev = []
    for d in sorted(glob.glob(f'/verif/seeded/{pid}*')):
        prev.append('    * "' + json.load(open(d + '/meta.json'))['breaks'] + '"')
    w = f'/tmp/seed{N}-{pid}'
    if not os.path.isdir(w):
        subprocess.check_call(['git', '-C', '/repo', 'worktree', 'add', '-q', '--detach', w, 'HEAD'])
    prop = f"{pid}: {p['title']}\n{p['statement']}\nQuantified over: {p['quantifier']['text']}\nCode anchors: {', '.join(p['anchors']['files'])}"
    open(f'{w}.prompt.txt', 'w').write(T.replace('@N@', N).replace('@ID@', pid).replace('@PROP@', prop).replace('@HINT@', HINTS[pid]).replace('@PREV@', '\n'.join(prev)))
print('ok', len(props))
