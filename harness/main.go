package main

import (
	"verif/mc"
	"verif/props"
)

func main() { mc.Main(props.All) }
