package props

import (
	"bytes"
	"fmt"
	"reflect"
	"sort"
	"strings"
	"time"
	"unsafe"

	"github.com/philpearl/plenc"
	"github.com/philpearl/plenc/plenccodec"
	"github.com/philpearl/plenc/plenccore"

	"verif/gen"
	"verif/mc"
	"verif/ref"
)

func init() {
	register(&mc.Prop{
		ID: "C17",
		Rule: "explicit-state BFS over configuration histories: operations = create instance (default | both switches), RegisterCodec / RegisterCodecWithTag(flat|custom) for the named type Marker and for its underlying basic type int, on any instance, Use(instance) (run the probe battery early); histories to depth 5 (thorough 6) over at most two instances, states de-duplicated on the model's registration sets; " +
			"in every state each instance (and the package-level default, and the package functions) runs a battery of 11 probes, in declaration order and - on a second realisation of the same configuration - in reverse order, putting the named type in every position (value, field, *T, []T, map key, map value, field tagged flat / custom, *T tagged, time and string slices for the options). " +
			"Oracle: bytes equal the model's prediction for that instance only - registered codec where (type, tag) matches, otherwise that instance's codec for the underlying kind (which may itself be a registration of that instance), error where neither exists; other instances and the default are unaffected; package functions == fresh default instance. non-trivial = state with at least one registration",
		Assumptions: []string{"registrations precede first use of the same instance (what the API documents); a tag on a slice/map field selects the container treatment, not the element codec (comment in codec.go)"},
		Work:        c17Work,
		Post: func(a *mc.Agg) []string {
			return needDims(a, "bfs-state", "probe:value", "probe:tagged-custom", "probe:options", "default-instance", "package-functions", "default-registration", "probe-order:reverse", "subject-registration", "options-by-value")
		},
	})
}

// markerCodec encodes any int-kind value as the constant 1000+id.
type markerCodec struct{ id int }

func (m markerCodec) Omit(ptr unsafe.Pointer) bool { return false }
func (m markerCodec) Read(data []byte, ptr unsafe.Pointer, wt plenccore.WireType) (int, error) {
	v, n := plenccore.ReadVarUint(data)
	if n <= 0 {
		return 0, fmt.Errorf("marker: bad varint")
	}
	*(*int)(ptr) = int(v)
	return n, nil
}
func (m markerCodec) New() unsafe.Pointer          { return unsafe.Pointer(new(int)) }
func (m markerCodec) WireType() plenccore.WireType { return plenccore.WTVarInt }
func (m markerCodec) Descriptor() plenccodec.Descriptor {
	return plenccodec.Descriptor{Type: plenccodec.FieldTypeUint}
}
func (m markerCodec) Size(ptr unsafe.Pointer, tag []byte) int {
	return len(tag) + plenccore.SizeVarUint(uint64(1000+m.id))
}
func (m markerCodec) Append(data []byte, ptr unsafe.Pointer, tag []byte) []byte {
	data = append(data, tag...)
	return plenccore.AppendVarUint(data, uint64(1000+m.id))
}

type c17Inst struct {
	cfg  int            // 0 default, 1 both switches
	regs map[string]int // tag ("" | flat | custom) -> marker id
	used bool
}

type c17State struct{ insts []c17Inst }

func (s c17State) key() string {
	var parts []string
	for _, in := range s.insts {
		var rs []string
		for t, m := range in.regs {
			rs = append(rs, fmt.Sprintf("%s=%d", t, m))
		}
		sort.Strings(rs)
		parts = append(parts, fmt.Sprintf("cfg%d{%s}used=%v", in.cfg, strings.Join(rs, ","), in.used))
	}
	return strings.Join(parts, " | ")
}

func (s c17State) clone() c17State {
	o := c17State{}
	for _, in := range s.insts {
		r := map[string]int{}
		for k, v := range in.regs {
			r[k] = v
		}
		o.insts = append(o.insts, c17Inst{in.cfg, r, in.used})
	}
	return o
}

type c17Op struct {
	kind string // new, reg, use
	inst int
	cfg  int
	tag  string
	m    int
	typ  string // Marker | int
}

func (o c17Op) String() string {
	switch o.kind {
	case "new":
		return fmt.Sprintf("New(cfg%d)", o.cfg)
	case "use":
		return fmt.Sprintf("Use(#%d)", o.inst)
	}
	if o.tag == "" {
		return fmt.Sprintf("#%d.RegisterCodec(%s, m%d)", o.inst, o.typ, o.m)
	}
	return fmt.Sprintf("#%d.RegisterCodecWithTag(%s, %q, m%d)", o.inst, o.typ, o.tag, o.m)
}

type c17Probe struct {
	name string
	run  func(p *plenc.Plenc) string                   // real
	want func(regs map[string]int, cfg ref.Cfg) string // model
}

// c17IntBytes: how the basic type int is encoded on an instance with registrations regs.
func c17IntBytes(regs map[string]int, tag string, v int) ([]byte, bool) {
	if m, ok := regs["int:"+tag]; ok {
		return ref.Uvarint(nil, uint64(1000+m)), true
	}
	switch tag {
	case "":
		return ref.Uvarint(nil, ref.ZigZag(int64(v))), true
	case "flat":
		return ref.Uvarint(nil, uint64(v)), true
	}
	return nil, false
}

// c17MarkerBytes: the named type uses its own registration, else falls back to the
// instance's codec for its underlying kind.
func c17MarkerBytes(regs map[string]int, tag string, v int) ([]byte, bool) {
	if m, ok := regs["Marker:"+tag]; ok {
		return ref.Uvarint(nil, uint64(1000+m)), true
	}
	return c17IntBytes(regs, tag, v)
}

func c17Probes() []c17Probe {
	res := func(b []byte, err error) string {
		if err != nil {
			return "error"
		}
		return hx(b)
	}
	field := func(tag string) func(regs map[string]int, cfg ref.Cfg) string {
		return func(regs map[string]int, cfg ref.Cfg) string {
			b, ok := c17MarkerBytes(regs, tag, 5)
			if !ok {
				return "error"
			}
			return hx(append([]byte{0x08}, b...))
		}
	}
	type fPlain struct {
		F gen.Marker `plenc:"1"`
	}
	type fPtr struct {
		F *gen.Marker `plenc:"1"`
	}
	type fSlice struct {
		F []gen.Marker `plenc:"1"`
	}
	type fKey struct {
		F map[gen.Marker]int `plenc:"1"`
	}
	type fVal struct {
		F map[int]gen.Marker `plenc:"1"`
	}
	type fFlat struct {
		F gen.Marker `plenc:"1,flat"`
	}
	type fCustom struct {
		F gen.Marker `plenc:"1,custom"`
	}
	type fPtrCustom struct {
		F *gen.Marker `plenc:"1,custom"`
	}
	type fSliceCustom struct {
		F []gen.Marker `plenc:"1,custom"`
	}
	type fOpts struct {
		W time.Time `plenc:"1"`
		S []string  `plenc:"2"`
	}
	five := gen.Marker(5)
	optT := ref.Struct(ref.Fld(1, ref.Leaf(ref.KTime)), ref.Fld(2, ref.Slice(ref.Leaf(ref.KString))))
	optV := ref.V{E: []ref.V{{Sec: -5, Ns: 7}, {E: []ref.V{{S: "a"}, {S: ""}}}}}
	return []c17Probe{
		{"value", func(p *plenc.Plenc) string { return res(p.Marshal(nil, &five)) }, func(regs map[string]int, cfg ref.Cfg) string {
			b, _ := c17MarkerBytes(regs, "", 5)
			return hx(b)
		}},
		{"field", func(p *plenc.Plenc) string { return res(p.Marshal(nil, &fPlain{5})) }, field("")},
		{"ptr", func(p *plenc.Plenc) string { return res(p.Marshal(nil, &fPtr{&five})) }, field("")},
		{"slice", func(p *plenc.Plenc) string { return res(p.Marshal(nil, &fSlice{[]gen.Marker{5, 5}})) }, func(regs map[string]int, cfg ref.Cfg) string {
			b, _ := c17MarkerBytes(regs, "", 5)
			body := append(append([]byte(nil), b...), b...)
			return hx(append(append([]byte{0x0a}, ref.Uvarint(nil, uint64(len(body)))...), body...))
		}},
		{"mapkey", func(p *plenc.Plenc) string { return res(p.Marshal(nil, &fKey{map[gen.Marker]int{5: 1}})) }, func(regs map[string]int, cfg ref.Cfg) string {
			b, _ := c17MarkerBytes(regs, "", 5)
			one, _ := c17IntBytes(regs, "", 1)
			entry := append(append(append([]byte{0x08}, b...), 0x10), one...)
			return hx(append(append([]byte{0x0b, 0x01}, ref.Uvarint(nil, uint64(len(entry)))...), entry...))
		}},
		{"mapvalue", func(p *plenc.Plenc) string { return res(p.Marshal(nil, &fVal{map[int]gen.Marker{1: 5}})) }, func(regs map[string]int, cfg ref.Cfg) string {
			b, _ := c17MarkerBytes(regs, "", 5)
			one, _ := c17IntBytes(regs, "", 1)
			entry := append(append(append([]byte{0x08}, one...), 0x10), b...)
			return hx(append(append([]byte{0x0b, 0x01}, ref.Uvarint(nil, uint64(len(entry)))...), entry...))
		}},
		{"tagged-flat", func(p *plenc.Plenc) string { return res(p.Marshal(nil, &fFlat{5})) }, field("flat")},
		{"tagged-custom", func(p *plenc.Plenc) string { return res(p.Marshal(nil, &fCustom{5})) }, field("custom")},
		{"ptr-tagged-custom", func(p *plenc.Plenc) string { return res(p.Marshal(nil, &fPtrCustom{&five})) }, field("custom")},
		{"slice-tagged-custom", func(p *plenc.Plenc) string { return res(p.Marshal(nil, &fSliceCustom{[]gen.Marker{5}})) }, func(regs map[string]int, cfg ref.Cfg) string {
			// the tag selects the slice treatment; elements use the untagged registration
			b, _ := c17MarkerBytes(regs, "", 5)
			return hx(append(append([]byte{0x0a}, ref.Uvarint(nil, uint64(len(b)))...), b...))
		}},
		{"options", func(p *plenc.Plenc) string {
			return res(p.Marshal(nil, &fOpts{W: time.Unix(-5, 7).UTC(), S: []string{"a", ""}}))
		}, func(regs map[string]int, cfg ref.Cfg) string {
			return hx(ref.EncTop(cfg, optT, optV).Bytes())
		}},
	}
}

var c17Cfgs = []ref.Cfg{{}, {ProtoTime: true, ProtoArrays: true}}

func c17Work(c *mc.Ctx) {
	if c.Owns(2) {
		c17Subjects(c)
	}
	if c.Owns(3) {
		c17OptionsByValue(c)
	}
	if c.Owns(4) {
		c17NamedFallback(c)
	}
	if !c.Owns(0) && !c.Owns(1) {
		return
	}
	probes := c17Probes()
	// package functions == fresh default instance; the default instance is not affected by anything below
	defaultWant := make([]string, len(probes))
	for i, pr := range probes {
		defaultWant[i] = pr.want(map[string]int{}, ref.Cfg{})
	}
	pkgProbe := func(where string) {
		five := gen.Marker(5)
		b, err := plenc.Marshal(nil, &five)
		if err != nil || hx(b) != defaultWant[0] {
			c.Violation("package-functions|value-probe-differs:"+where, fmt.Sprintf("plenc.Marshal gives %s %v, a default instance %s", hx(b), err, defaultWant[0]))
		}
		type fCustom struct {
			F gen.Marker `plenc:"1,custom"`
		}
		if _, err := plenc.Marshal(nil, &fCustom{5}); err == nil {
			c.Violation("package-functions|tagged-custom-accepted:"+where, "the package-level default accepted a tag only registered on other instances")
		}
		type fOpts struct {
			W time.Time `plenc:"1"`
			S []string  `plenc:"2"`
		}
		ob, err := plenc.Marshal(nil, &fOpts{W: time.Unix(-5, 7).UTC(), S: []string{"a", ""}})
		if err != nil || hx(ob) != defaultWant[len(defaultWant)-1] {
			c.Violation("package-functions|options-leaked:"+where, fmt.Sprintf("%s vs %s", hx(ob), defaultWant[len(defaultWant)-1]))
		}
		// the other package-level entry points: Unmarshal, CodecForType, CodecForTypeWithTag
		var back gen.Marker
		if err := plenc.Unmarshal(b, &back); err != nil || back != five {
			c.Violation("package-functions|unmarshal-differs:"+where, fmt.Sprintf("plenc.Unmarshal(%s) = %d, %v", hx(b), back, err))
		}
		dc, derr := NewPlenc(ref.Cfg{}).CodecForType(reflect.TypeOf(five))
		pc, perr := plenc.CodecForType(reflect.TypeOf(five))
		if (derr == nil) != (perr == nil) || (perr == nil && reflect.TypeOf(dc) != reflect.TypeOf(pc)) {
			c.Violation("package-functions|codecfortype-differs:"+where, fmt.Sprintf("plenc.CodecForType gives %T %v, a default instance %T %v", pc, perr, dc, derr))
		}
		dt, dterr := NewPlenc(ref.Cfg{}).CodecForTypeWithTag(reflect.TypeOf(0), "flat")
		pt, pterr := plenc.CodecForTypeWithTag(reflect.TypeOf(0), "flat")
		if (dterr == nil) != (pterr == nil) || (pterr == nil && reflect.TypeOf(dt) != reflect.TypeOf(pt)) {
			c.Violation("package-functions|codecfortypewithtag-differs:"+where, fmt.Sprintf("plenc.CodecForTypeWithTag(int, flat) gives %T %v, a default instance %T %v", pt, pterr, dt, dterr))
		}
		if _, err := plenc.CodecForTypeWithTag(reflect.TypeOf(five), "custom"); err == nil {
			c.Violation("package-functions|tagged-custom-codec-found:"+where, "the package-level default has a codec for a tag only registered on other instances")
		}
		c.Dim("package-functions")
		c.Dim("default-instance")
	}
	if c.Owns(0) {
		depth := 5
		if c.Tier == "thorough" {
			depth = 6
		}
		type node struct {
			st   c17State
			hist []c17Op
		}
		seen := map[string]bool{}
		start := c17State{}
		seen[start.key()] = true
		frontier := []node{{start, nil}}
		states, transitions := 0, 0
		for len(frontier) > 0 {
			nd := frontier[0]
			frontier = frontier[1:]
			if len(nd.hist) >= depth {
				continue
			}
			var ops []c17Op
			if len(nd.st.insts) < 2 {
				ops = append(ops, c17Op{kind: "new", cfg: 0}, c17Op{kind: "new", cfg: 1})
			}
			for i, in := range nd.st.insts {
				if !in.used {
					for _, tag := range []string{"", "flat", "custom"} {
						ops = append(ops, c17Op{kind: "reg", inst: i, tag: tag, m: 1 + 4*i, typ: "Marker"}, c17Op{kind: "reg", inst: i, tag: tag, m: 2 + 4*i, typ: "Marker"},
							c17Op{kind: "reg", inst: i, tag: tag, m: 3 + 4*i, typ: "int"})
					}
					ops = append(ops, c17Op{kind: "use", inst: i})
				}
			}
			for _, op := range ops {
				ns := nd.st.clone()
				switch op.kind {
				case "new":
					ns.insts = append(ns.insts, c17Inst{cfg: op.cfg, regs: map[string]int{}})
				case "reg":
					ns.insts[op.inst].regs[op.typ+":"+op.tag] = op.m
				case "use":
					ns.insts[op.inst].used = true
				}
				hist := append(append([]c17Op(nil), nd.hist...), op)
				transitions++
				hs := make([]string, len(hist))
				for i, h := range hist {
					hs[i] = h.String()
				}
				if !c.Begin(fmt.Sprintf(`{"set":"bfs","history":%q}`, strings.Join(hs, "; "))) {
					continue
				}
				c.Guard("bfs|", func() {
					// replay the history on fresh instances, running the battery at every Use and at the end
					cur := c17State{}
					var live []*plenc.Plenc
					check := func(i int, when string) bool {
						for pi, pr := range probes {
							c.Ops(1)
							got := pr.run(live[i])
							want := pr.want(cur.insts[i].regs, c17Cfgs[cur.insts[i].cfg])
							c.Dim("probe:" + pr.name)
							if got != want {
								c.Violation(fmt.Sprintf("bfs|probe-%s-differs", pr.name), fmt.Sprintf("history %s; %s instance #%d (cfg%d, registrations %v) probe %s gives %s, model %s",
									strings.Join(hs, "; "), when, i, cur.insts[i].cfg, cur.insts[i].regs, pr.name, got, want))
								return false
							}
							_ = pi
						}
						return true
					}
					for _, h := range hist {
						switch h.kind {
						case "new":
							cur.insts = append(cur.insts, c17Inst{cfg: h.cfg, regs: map[string]int{}})
							live = append(live, NewPlenc(c17Cfgs[h.cfg]))
						case "reg":
							cur.insts[h.inst].regs[h.typ+":"+h.tag] = h.m
							rt := reflect.TypeOf(gen.Marker(0))
							if h.typ == "int" {
								rt = reflect.TypeOf(int(0))
							}
							if h.tag == "" {
								live[h.inst].RegisterCodec(rt, markerCodec{h.m})
							} else {
								live[h.inst].RegisterCodecWithTag(rt, h.tag, markerCodec{h.m})
							}
						case "use":
							if !check(h.inst, "at Use,") {
								return
							}
						}
					}
					for i := range live {
						if !check(i, "finally,") {
							return
						}
					}
					// the same configuration realised afresh, probed in the opposite order: what an
					// instance caches while building one struct must not change what another struct gets
					var rev []*plenc.Plenc
					for _, in := range cur.insts {
						p := NewPlenc(c17Cfgs[in.cfg])
						var keys []string
						for k := range in.regs {
							keys = append(keys, k)
						}
						sort.Strings(keys)
						for _, k := range keys {
							typ, tag, _ := strings.Cut(k, ":")
							rt := reflect.TypeOf(gen.Marker(0))
							if typ == "int" {
								rt = reflect.TypeOf(int(0))
							}
							if tag == "" {
								p.RegisterCodec(rt, markerCodec{in.regs[k]})
							} else {
								p.RegisterCodecWithTag(rt, tag, markerCodec{in.regs[k]})
							}
						}
						rev = append(rev, p)
					}
					for i := range rev {
						for pi := len(probes) - 1; pi >= 0; pi-- {
							pr := probes[pi]
							c.Ops(1)
							got, want := pr.run(rev[i]), pr.want(cur.insts[i].regs, c17Cfgs[cur.insts[i].cfg])
							c.Dim("probe-order:reverse")
							if got != want {
								c.Violation(fmt.Sprintf("bfs|probe-%s-differs-in-reverse-order", pr.name), fmt.Sprintf("history %s; instance #%d probed in reverse order: probe %s gives %s, model %s",
									strings.Join(hs, "; "), i, pr.name, got, want))
								return
							}
						}
					}
					pkgProbe("after-history")
					c.Outcome("ok")
				})
				if k := ns.key(); !seen[k] {
					seen[k] = true
					states++
					c.Dim("bfs-state")
					if strings.Contains(k, "=") {
						c.NonTrivialKey(k)
					}
					frontier = append(frontier, node{ns, hist})
					if states%100 == 1 {
						c.Sample(map[string]any{"history": hs, "state": k})
					}
				}
			}
		}
		c.Count("states", int64(states))
		c.Count("bfs_transitions", int64(transitions))
	}
	if c.Owns(1) {
		// registrations on the package-level default: one distinct named type per scenario (the default cannot be reset)
		type scen struct {
			t   reflect.Type
			mk  func() any
			tag string
		}
		d0, d1, d2, d3 := gen.D0(5), gen.D1(5), gen.D2(5), gen.D3(5)
		scens := []scen{{reflect.TypeOf(d0), func() any { return &d0 }, ""}, {reflect.TypeOf(d1), func() any { return &d1 }, ""},
			{reflect.TypeOf(d2), func() any { return &d2 }, "custom"}, {reflect.TypeOf(d3), func() any { return &d3 }, "flat"}}
		for si, sc := range scens {
			if !c.Begin(fmt.Sprintf(`{"set":"default-registration","type":%q,"tag":%q}`, sc.t, sc.tag)) {
				continue
			}
			c.Dim("default-registration")
			c.NonTrivial()
			c.Guard("default-registration|", func() {
				other := NewPlenc(ref.Cfg{})
				before, _ := other.Marshal(nil, sc.mk())
				if sc.tag == "" {
					plenc.RegisterCodec(sc.t, markerCodec{7})
				} else {
					plenc.RegisterCodecWithTag(sc.t, sc.tag, markerCodec{7})
				}
				got, err := plenc.Marshal(nil, sc.mk())
				want := ref.Uvarint(nil, 1007)
				if sc.tag != "" {
					want = ref.Uvarint(nil, ref.ZigZag(5)) // the untagged value still uses the kind's codec
				}
				if err != nil || !bytes.Equal(got, want) {
					c.Violation("default-registration|registered-codec-not-used", fmt.Sprintf("scenario %d: %s %v want %s", si, hx(got), err, hx(want)))
					return
				}
				// instances created before and after are unaffected
				after, _ := other.Marshal(nil, sc.mk())
				fresh, _ := NewPlenc(ref.Cfg{}).Marshal(nil, sc.mk())
				if !bytes.Equal(before, after) || !bytes.Equal(fresh, ref.Uvarint(nil, ref.ZigZag(5))) {
					c.Violation("default-registration|leaked-into-instances", fmt.Sprintf("before %s after %s fresh %s", hx(before), hx(after), hx(fresh)))
					return
				}
				c.Outcome("ok")
			})
		}
	}
}

// subjCodec is a marker codec usable for any registered type: it always writes the varint
// 2000+id (so the probes can see which codec ran) and ignores what it reads.
type subjCodec struct {
	id int
	rt reflect.Type
}

func (m subjCodec) Omit(ptr unsafe.Pointer) bool { return false }
func (m subjCodec) Read(data []byte, ptr unsafe.Pointer, wt plenccore.WireType) (int, error) {
	_, n := plenccore.ReadVarUint(data)
	if n <= 0 {
		return 0, fmt.Errorf("subject marker: bad varint")
	}
	return n, nil
}
func (m subjCodec) New() unsafe.Pointer          { return reflect.New(m.rt).UnsafePointer() }
func (m subjCodec) WireType() plenccore.WireType { return plenccore.WTVarInt }
func (m subjCodec) Descriptor() plenccodec.Descriptor {
	return plenccodec.Descriptor{Type: plenccodec.FieldTypeUint}
}
func (m subjCodec) Size(ptr unsafe.Pointer, tag []byte) int {
	return len(tag) + plenccore.SizeVarUint(uint64(2000+m.id))
}
func (m subjCodec) Append(data []byte, ptr unsafe.Pointer, tag []byte) []byte {
	return plenccore.AppendVarUint(append(data, tag...), uint64(2000+m.id))
}

// c17Subjects: the (type, tag) key for every KIND of registered type. For each subject type
// and each tag name (none, a built-in option name, a custom name) one registration is made
// on a fresh instance; the registered codec must then be the one used for exactly that type
// with exactly that tag - directly, as a struct field, behind a pointer - must not be used
// for the same type under another tag or none, and a second instance must be unaffected.
// c17OptionsByValue: the switches of an instance apply whichever way the value is handed over.
func c17OptionsByValue(c *mc.Ctx) {
	if !c.Begin(`{"set":"options-by-value"}`) {
		return
	}
	c.AddEvals(1)
	c.Count("states", 1)
	c.Dim("options-by-value")
	c.Guard("options|", func() {
		tm := time.Unix(1600000000, 5).UTC()
		strs := []string{"a", ""}
		type pt struct {
			T *time.Time `plenc:"1"`
		}
		type ps struct {
			S *[]string `plenc:"1"`
		}
		type pm struct {
			M map[string]time.Time `plenc:"1"`
		}
		for _, cfg := range ref.Cfgs {
			p := NewPlenc(cfg)
			for _, v := range []any{pt{&tm}, ps{&strs}, pm{map[string]time.Time{"k": tm}}} {
				rv := reflect.ValueOf(v)
				pv := reflect.New(rv.Type())
				pv.Elem().Set(rv)
				byPtr, e1 := p.Marshal(nil, pv.Interface())
				byVal, e2 := p.Marshal(nil, v)
				if e1 != nil || e2 != nil || !bytes.Equal(byPtr, byVal) {
					c.Violation("options|by-value-differs-from-by-pointer", fmt.Sprintf("configuration %s, %T: by pointer %s (%v), by value %s (%v)", cfg, v, hx(byPtr), e1, hx(byVal), e2))
					return
				}
			}
		}
		c.Outcome("ok")
	})
}

func c17Subjects(c *mc.Ctx) {
	subjects := []reflect.Type{
		reflect.TypeOf(gen.Marker(0)), reflect.TypeOf(gen.NString("")), reflect.TypeOf(gen.In{}), reflect.TypeOf(gen.NSliceStr(nil)), reflect.TypeOf(gen.NSliceF64(nil)),
		reflect.TypeOf(gen.NMapSI(nil)), reflect.TypeOf(gen.NPtrInt(nil)), reflect.TypeOf(gen.NBytes(nil)), reflect.TypeOf([]float64(nil)), reflect.TypeOf([]string(nil)),
		reflect.TypeOf(map[string]string(nil)), reflect.TypeOf(time.Time{}), reflect.TypeOf(int32(0)), reflect.TypeOf(""),
	}
	tags := []string{"", "flat", "intern", "proto", "custom"}
	marker := plenccore.AppendVarUint(nil, 2007)
	for _, rt := range subjects {
		for _, regTag := range tags {
			if !c.Begin(fmt.Sprintf(`{"set":"subjects","type":%q,"registered_tag":%q}`, rt.String(), regTag)) {
				continue
			}
			c.AddEvals(1)
			c.Count("states", 1)
			c.Dim("subject-registration")
			c.NonTrivial()
			pre := fmt.Sprintf("subjects|%s|reg=%q|", rt, regTag)
			c.Guard(pre, func() {
				p := NewPlenc(ref.Cfg{})
				other := NewPlenc(ref.Cfg{})
				fresh := NewPlenc(ref.Cfg{})
				if regTag == "" {
					p.RegisterCodec(rt, subjCodec{7, rt})
				} else {
					p.RegisterCodecWithTag(rt, regTag, subjCodec{7, rt})
				}
				field := func(ft reflect.Type, useTag string) reflect.Type {
					tg := `plenc:"1"`
					if useTag != "" {
						tg = `plenc:"1,` + useTag + `"`
					}
					return reflect.StructOf([]reflect.StructField{{Name: "F", Type: ft, Tag: reflect.StructTag(tg)}, {Name: "Z", Type: reflect.TypeOf(0), Tag: `plenc:"9"`}})
				}
				enc := func(q *plenc.Plenc, st reflect.Type, ptrField bool) (string, error) {
					v := reflect.New(st)
					if ptrField {
						v.Elem().Field(0).Set(reflect.New(st.Field(0).Type.Elem()))
					}
					b, err := q.Marshal(nil, v.Interface())
					return hx(b), err
				}
				for _, useTag := range tags {
					c.Ops(4)
					hit := useTag == regTag
					// (1) direct lookup
					cd, err := p.CodecForTypeWithTag(rt, useTag)
					_, isMarker := cd.(subjCodec)
					if hit && (err != nil || !isMarker) {
						c.Violation(pre+"registered-codec-not-returned-for-its-key", fmt.Sprintf("CodecForTypeWithTag(%s, %q) = %T, %v", rt, useTag, cd, err))
						return
					}
					if !hit && isMarker {
						c.Violation(pre+"registered-codec-returned-for-another-tag", fmt.Sprintf("CodecForTypeWithTag(%s, %q) returned the codec registered under %q", rt, useTag, regTag))
						return
					}
					// (2) as a struct field and (3) behind a pointer, with that tag
					for _, ptr := range []bool{false, true} {
						if ptr && (rt.Kind() == reflect.Map || rt.Kind() == reflect.Ptr) {
							continue
						}
						ft := rt
						if ptr {
							ft = reflect.PointerTo(rt)
						}
						st := field(ft, useTag)
						// the intern option is consumed by the struct builder: the field's codec is looked up untagged
						hit := useTag == regTag
						if useTag == "intern" {
							hit = regTag == ""
						}
						got, gerr := enc(p, st, ptr)
						want, werr := enc(fresh, st, ptr)
						wantMarker := hx(append([]byte{0x08}, marker...))
						switch {
						case hit && (gerr != nil || got != wantMarker):
							c.Violation(pre+fmt.Sprintf("registered-codec-not-used-in-field:ptr=%v", ptr), fmt.Sprintf("field %s tagged %q encodes as %s (%v), the registered codec writes %s", ft, useTag, got, gerr, wantMarker))
							return
						case !hit && ((gerr == nil) != (werr == nil) || (gerr == nil && got != want)):
							c.Violation(pre+fmt.Sprintf("registration-leaks-to-another-tag:ptr=%v", ptr), fmt.Sprintf("field %s tagged %q: %s (%v) on the instance with a registration under %q, %s (%v) on a fresh instance", ft, useTag, got, gerr, regTag, want, werr))
							return
						}
						// (3') the pointer field alone in its struct, handed to Marshal BY VALUE: such a struct
						// sits directly in the interface word and takes a separate path inside Marshal
						if ptr {
							std := reflect.StructOf([]reflect.StructField{st.Field(0)})
							byValue := func(q *plenc.Plenc) (string, error) {
								v := reflect.New(std).Elem()
								v.Field(0).Set(reflect.New(std.Field(0).Type.Elem()))
								b, err := q.Marshal(nil, v.Interface())
								return hx(b), err
							}
							dgot, dgerr := byValue(p)
							dwant, dwerr := byValue(fresh)
							switch {
							case hit && (dgerr != nil || dgot != wantMarker):
								c.Violation(pre+"registered-codec-not-used-by-value", fmt.Sprintf("struct{F %s `%s`} by value encodes as %s (%v), the registered codec writes %s", ft, useTag, dgot, dgerr, wantMarker))
								return
							case !hit && ((dgerr == nil) != (dwerr == nil) || (dgerr == nil && dgot != dwant)):
								c.Violation(pre+"registration-leaks-by-value", fmt.Sprintf("struct{F %s `%s`} by value: %s (%v) vs fresh %s (%v)", ft, useTag, dgot, dgerr, dwant, dwerr))
								return
							}
						}
						// (4) another instance never sees it
						ogot, oerr := enc(other, st, ptr)
						if (oerr == nil) != (werr == nil) || (oerr == nil && ogot != want) {
							c.Violation(pre+"registration-leaks-to-another-instance", fmt.Sprintf("field %s tagged %q: %s (%v) vs fresh %s (%v)", ft, useTag, ogot, oerr, want, werr))
							return
						}
					}
				}
				c.Outcome("ok")
			})
		}
	}
}

// c17NamedFallback: a named type of a basic kind uses the codec its instance holds for the builtin
// type of EXACTLY that kind under exactly that tag. For each builtin type and tag one registration is
// made on a fresh instance; then a field of every named basic type under every tag must use the
// registered codec if and only if its kind and tag are the registered ones, and otherwise encode
// exactly as on a fresh instance (a sibling kind of the same width must not follow).
func c17NamedFallback(c *mc.Ctx) {
	type kind struct {
		builtin, named reflect.Type
	}
	kinds := []kind{
		{reflect.TypeOf(false), reflect.TypeOf(gen.NBool(false))},
		{reflect.TypeOf(int(0)), reflect.TypeOf(gen.NInt(0))}, {reflect.TypeOf(int8(0)), reflect.TypeOf(gen.NInt8(0))},
		{reflect.TypeOf(int16(0)), reflect.TypeOf(gen.NInt16(0))}, {reflect.TypeOf(int32(0)), reflect.TypeOf(gen.NInt32(0))},
		{reflect.TypeOf(int64(0)), reflect.TypeOf(gen.NInt64(0))},
		{reflect.TypeOf(uint(0)), reflect.TypeOf(gen.NUint(0))}, {reflect.TypeOf(uint8(0)), reflect.TypeOf(gen.NUint8(0))},
		{reflect.TypeOf(uint16(0)), reflect.TypeOf(gen.NUint16(0))}, {reflect.TypeOf(uint32(0)), reflect.TypeOf(gen.NUint32(0))},
		{reflect.TypeOf(uint64(0)), reflect.TypeOf(gen.NUint64(0))},
		{reflect.TypeOf(float32(0)), reflect.TypeOf(gen.NFloat32(0))}, {reflect.TypeOf(float64(0)), reflect.TypeOf(gen.NFloat64(0))},
		{reflect.TypeOf(""), reflect.TypeOf(gen.NString(""))},
	}
	tags := []string{"", "flat", "custom"}
	wantMarker := hx(append([]byte{0x08}, plenccore.AppendVarUint(nil, 2007)...))
	for _, reg := range kinds {
		for _, regTag := range tags {
			if !c.Begin(fmt.Sprintf(`{"set":"named-fallback","builtin":%q,"registered_tag":%q}`, reg.builtin.String(), regTag)) {
				continue
			}
			c.AddEvals(1)
			c.Count("states", 1)
			c.Dim("named-fallback")
			c.NonTrivial()
			pre := fmt.Sprintf("named-fallback|%s|reg=%q|", reg.builtin, regTag)
			c.Guard(pre, func() {
				p := NewPlenc(ref.Cfg{})
				fresh := NewPlenc(ref.Cfg{})
				if regTag == "" {
					p.RegisterCodec(reg.builtin, subjCodec{7, reg.builtin})
				} else {
					p.RegisterCodecWithTag(reg.builtin, regTag, subjCodec{7, reg.builtin})
				}
				enc := func(q *plenc.Plenc, ft reflect.Type, useTag string) (string, error) {
					tg := `plenc:"1"`
					if useTag != "" {
						tg = `plenc:"1,` + useTag + `"`
					}
					st := reflect.StructOf([]reflect.StructField{{Name: "F", Type: ft, Tag: reflect.StructTag(tg)}})
					v := reflect.New(st)
					// a non-zero value, so that the library's own codecs write something too
					switch ft.Kind() {
					case reflect.Bool:
						v.Elem().Field(0).SetBool(true)
					case reflect.String:
						v.Elem().Field(0).SetString("x")
					case reflect.Float32, reflect.Float64:
						v.Elem().Field(0).SetFloat(1.5)
					case reflect.Uint, reflect.Uint8, reflect.Uint16, reflect.Uint32, reflect.Uint64:
						v.Elem().Field(0).SetUint(3)
					default:
						v.Elem().Field(0).SetInt(3)
					}
					b, err := q.Marshal(nil, v.Interface())
					return hx(b), err
				}
				for _, use := range kinds {
					for _, useTag := range tags {
						for _, ft := range []reflect.Type{use.named, use.builtin} {
							c.Ops(2)
							hit := use.builtin == reg.builtin && useTag == regTag
							got, gerr := enc(p, ft, useTag)
							want, werr := enc(fresh, ft, useTag)
							switch {
							case hit && (gerr != nil || got != wantMarker):
								c.Violation(pre+"named-type-does-not-follow-its-kind", fmt.Sprintf("field %s tagged %q encodes as %s (%v); the codec registered for %s under %q writes %s", ft, useTag, got, gerr, reg.builtin, regTag, wantMarker))
								return
							case !hit && ((gerr == nil) != (werr == nil) || (gerr == nil && got != want)):
								c.Violation(pre+"registration-followed-by-another-kind-or-tag", fmt.Sprintf("field %s tagged %q: %s (%v) on the instance with a registration for (%s, %q), %s (%v) on a fresh instance", ft, useTag, got, gerr, reg.builtin, regTag, want, werr))
								return
							}
						}
					}
				}
				c.Outcome("ok")
			})
		}
	}
}
