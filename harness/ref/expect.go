package ref

// Expect returns the value a correct Marshal/Unmarshal round trip of v yields:
// v with exactly the documented normalisations (DESIGN §5). forced is true in
// positions whose bytes are always written (pointer targets, slice elements).
func Expect(cfg Cfg, t *T, opt string, v V, forced bool) V {
	switch t.K {
	case KFloat32:
		if !forced && uint32(v.U) == 0x80000000 {
			return V{}
		}
		return V{U: uint64(uint32(v.U))}
	case KFloat64:
		if !forced && v.U == 1<<63 {
			return V{}
		}
		return v
	case KBool:
		if v.U != 0 {
			return V{U: 1}
		}
		return V{}
	case KInt, KInt8, KInt16, KInt32, KInt64:
		return V{U: uint64(signExtend(v.U, bits(t)))}
	case KUint, KUint8, KUint16, KUint32, KUint64:
		return V{U: mask(v.U, bits(t))}
	case KString:
		return V{S: v.S}
	case KBytes:
		if v.S == "" {
			return V{Nil: true}
		}
		return V{S: v.S}
	case KTime:
		return V{Sec: v.Sec, Ns: v.Ns}
	case KNullInt, KNullBool, KNullFloat, KNullString:
		if v.Nil {
			return V{Nil: true}
		}
		return V{U: v.U, S: v.S}
	case KNullTime:
		if v.Nil {
			return V{Nil: true, Sec: zeroTimeSec}
		}
		return V{Sec: v.Sec, Ns: v.Ns}
	case KPtr:
		if v.Nil {
			return V{Nil: true}
		}
		e := Expect(cfg, t.Elem, opt, v.E[0], true)
		if ClassOf(cfg, t.Elem, opt) == CR && e.Nil && !(t.Elem.K == KPtr && v.E[0].Nil) {
			// pointer (chain) to an empty protobuf repeated field: nothing is written at all.
			// (A pointer to a NIL pointer is a different matter: C01's nested-presence finding.)
			return V{Nil: true}
		}
		return V{E: []V{e}}
	case KSlice:
		cl := ClassOf(cfg, t, opt)
		var out []V
		for _, e := range v.E {
			if t.Elem.K == KPtr && ptrChainNil(t.Elem, e) {
				switch cl {
				case CL, CR: // packed / repeated: nil pointers contribute nothing
					continue
				case CS: // counted: an empty element reads back as pointer to zero
					out = append(out, ptrToZero(cfg, t.Elem))
					continue
				}
			}
			out = append(out, Expect(cfg, t.Elem, "", e, true))
		}
		if len(out) == 0 {
			return V{Nil: true}
		}
		return V{E: out}
	case KMap:
		if v.Nil {
			return V{Nil: true}
		}
		if len(v.E) == 0 && opt == "proto" {
			return V{Nil: true}
		}
		out := V{E: make([]V, 0, len(v.E))}
		for i := 0; i+1 < len(v.E); i += 2 {
			out.E = append(out.E, Expect(cfg, t.Key, "", v.E[i], false), Expect(cfg, t.Elem, "", v.E[i+1], false))
		}
		return out
	case KStruct:
		out := V{E: make([]V, len(t.Fields))}
		for i, f := range t.Fields {
			if !f.Encoded() {
				out.E[i] = Zero(f.T)
				continue
			}
			out.E[i] = Expect(cfg, f.T, f.Opt, v.E[i], false)
		}
		return out
	}
	panic("Expect: bad kind")
}

// ptrToZero is what an empty counted-list element decodes to for pointer
// element types: pointers all the way down to a zero value.
func ptrToZero(cfg Cfg, t *T) V {
	if t.K == KPtr {
		return V{E: []V{ptrToZero(cfg, t.Elem)}}
	}
	return Expect(cfg, t, "", Zero(t), true)
}
