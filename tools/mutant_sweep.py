#!/usr/bin/env python3
"""Machine-made counterpart of the seeded changes: every single-point mutant of the plenc sources
(harness/cmd/mutgen: all sites of a fixed operator list, nothing sampled) is
  phase 1  built and run against the pinned suite in a scratch copy of /repo's HEAD; mutants that do
           not compile or that the suite kills are of no interest (the brief asks for changes the
           existing tests pass);
  phase 2  for the survivors, the quick checks mapped to the mutated file are run against the
           scratch copy (VERIF_REPO/VERIF_OUT, so neither /repo nor /verif/evidence is touched)
           until one reports a violation.
Mutants silent in phase 2 are written to <out>/survivors.jsonl for triage by hand: equivalent,
outside the listed properties, or a gap in a check.
usage: mutant_sweep.py phase1|phase2 [-j N] [--out DIR] [--only FILE-SUBSTRING] [--ids a,b,c]
Scratch copies live under /tmp/mutsweep.* and are removed at the end."""
import json, os, subprocess, sys, shutil, tempfile, multiprocessing, time

V = os.path.dirname(os.path.dirname(os.path.abspath(__file__)))
ENV = dict(os.environ, GOFLAGS="-mod=mod", GOPROXY="off", GOSUMDB="off", GOTOOLCHAIN="local")

CHECKS = {  # fastest first: the sweep stops at the first check that reports a violation
    "plenccore/varints.go": "C18 C09 C04 C13 C05 C02 C03 C01",
    "plenccore/wire.go": "C18 C09 C04 C13 C03 C02 C01",
    "plenccodec/struct.go": "C09 C08 C14 C04 C13 C05 C02 C01 C03 C10 C06",
    "plenccodec/wrapper.go": "C09 C08 C14 C04 C13 C05 C02 C01 C06 C10 C11 C12",
    "plenccodec/map.go": "C09 C14 C04 C13 C05 C02 C01 C12 C10 C07",
    "plenccodec/string.go": "C09 C04 C19 C05 C02 C01 C11 C07",
    "plenccodec/time.go": "C09 C14 C04 C13 C05 C02 C01 C12 C03",
    "plenccodec/int.go": "C09 C14 C04 C13 C05 C02 C01",
    "plenccodec/float.go": "C09 C14 C04 C13 C05 C02 C01 C11",
    "plenccodec/bool.go": "C09 C14 C04 C13 C05 C02 C01",
    "plenccodec/descriptor.go": "C14 C15 C13 C16 C04",
    "plenccodec/output.go": "C15 C13 C16",
    "plenccodec/json.go": "C16 C04 C13 C11",
    "plenccodec/unsafetricks.go": "C09 C01 C10 C11",
    "codec.go": "C08 C09 C17 C14 C02 C01 C12 C07",
    "plenc.go": "C17 C09 C08 C12 C02 C01 C07",
    "marshal.go": "C09 C17 C06 C05 C02 C01",
    "unsafetricks.go": "C09 C01 C06",
    "null/null.go": "C09 C14 C13 C04 C19 C05 C02 C01",
    "cmd/plenctag/main.go": "C20",
}


def sh(cmd, cwd=None, timeout=600, env=ENV):
    try:
        p = subprocess.run(cmd, shell=True, cwd=cwd, env=env, stdout=subprocess.PIPE, stderr=subprocess.STDOUT, timeout=timeout)
        return p.returncode, p.stdout.decode("utf8", "replace")
    except subprocess.TimeoutExpired as e:
        return 124, (e.stdout or b"").decode("utf8", "replace") + "\nTIMEOUT"


_work = None


def workdir():
    global _work
    if _work is None:
        _work = tempfile.mkdtemp(prefix=f"mutsweep.{os.getppid()}.")
        rc, out = sh(f"git -C /repo archive HEAD | tar -x -C {_work}")
        assert rc == 0, out
    return _work


def apply(m, w):
    path = os.path.join(w, m["file"])
    src = open(path, "rb").read()
    assert src[m["off"]:m["end"]].decode() == m["old"], m
    open(path, "wb").write(src[:m["off"]] + m["new"].encode() + src[m["end"]:])
    return path, src


def phase1_one(m):
    w = workdir()
    path, orig = apply(m, w)
    try:
        rc, out = sh("go build ./...", cwd=w, timeout=300)
        if rc != 0:
            return dict(m, result="nocompile")
        failed = None
        for attempt in range(3):
            rc, out = sh("ulimit -v 16000000; go test -vet=off -count=1 -timeout 120s ./...", cwd=w, timeout=400)
            if rc == 0:
                return dict(m, result="survived-suite")
            fails = sorted(set(l.split()[2] for l in out.splitlines() if l.startswith("--- FAIL") and len(l.split()) > 2))
            if fails != ["TestDescriptor"]:
                failed = fails or ["(build/timeout/panic)"]
                break
            failed = fails
        return dict(m, result="killed-by-suite", by=failed[:3])
    finally:
        open(path, "wb").write(orig)


def phase2_one(m):
    w = workdir()
    path, orig = apply(m, w)
    o = tempfile.mkdtemp(prefix=f"mutsweep.{os.getppid()}.out.")
    try:
        ids = CHECKS.get(m["file"], "C01 C02")
        if os.environ.get("SWEEP_REST"):  # the checks NOT mapped to the file (second opinion on a silent mutant)
            ids = " ".join(f"C{i:02d}" for i in range(1, 21) if f"C{i:02d}" not in ids.split() and i != 20)
        rc, out = sh(f"VERIF_REPO={w} VERIF_OUT={o} {V}/bin/check --first-of {ids}", timeout=3600)
        ran = [l[3:].strip() for l in out.splitlines() if l.startswith("== ")]
        viol = [l for l in out.splitlines() if l.startswith("VIOLATION")]
        if rc == 1 and viol:
            return dict(m, result="detected", by=ran[-1], sig=viol[0].split("sig=", 1)[-1][:160], ran=ran)
        if rc != 0:
            return dict(m, result="check-error", by=(ran or ["build"])[-1], tail=out[-400:], ran=ran)
        return dict(m, result="silent", ran=ran)
    finally:
        open(path, "wb").write(orig)
        shutil.rmtree(o, ignore_errors=True)


def main():
    a = sys.argv[1:]
    phase = a[0]
    j = int(a[a.index("-j") + 1]) if "-j" in a else 4
    out = a[a.index("--out") + 1] if "--out" in a else os.path.join(V, "mutants")
    only = a[a.index("--only") + 1] if "--only" in a else None
    ids = set(int(x) for x in a[a.index("--ids") + 1].split(",")) if "--ids" in a else None
    os.makedirs(out, exist_ok=True)
    if phase == "phase1":
        rc, txt = sh(f"cd {V}/harness && go run ./cmd/mutgen /repo", timeout=600)
        ms = [json.loads(l) for l in txt.splitlines() if l.startswith("{")]
        fn, dst = phase1_one, os.path.join(out, "phase1.jsonl")
    else:
        ms = [json.loads(l) for l in open(os.path.join(out, "phase1.jsonl"))]
        ms = [m for m in ms if m["result"] == "survived-suite"]
        fn, dst = phase2_one, os.path.join(out, "phase2.jsonl")
    if phase == "phase2":
        # int(0) -> int(1) inside reflect.TypeOf(...) changes a value nobody looks at: equivalent by construction
        def type_only(m):
            if m["op"] not in ("int+1", "int-1"):
                return False
            line = open(os.path.join("/repo", m["file"])).read().splitlines()[m["line"] - 1]
            return "reflect.TypeOf(" in line and m["old"] == "0"
        # "return 0, <error>" -> "return 1, <error>": the count returned beside an error is never looked at
        # (every caller in the library returns at once when err != nil): equivalent by construction
        import re
        def error_path_n(m):
            if m["op"] not in ("int+1", "int-1") or m["old"] != "0":
                return False
            line = open(os.path.join("/repo", m["file"])).read().splitlines()[m["line"] - 1]
            return re.search(r"return 0, (fmt\.Errorf|err\b|errors\.)", line) is not None
        ms = [m for m in ms if not type_only(m) and not error_path_n(m)]
    if only:
        ms = [m for m in ms if only in m["file"]]
    if ids is not None:
        ms = [m for m in ms if m["id"] in ids]
    done = {}
    if os.path.exists(dst) and not ids:
        for l in open(dst):
            r = json.loads(l)
            done[r["id"]] = r
    todo = [m for m in ms if m["id"] not in done]
    print(f"{phase}: {len(ms)} mutants, {len(done)} already done, {len(todo)} to run, {j} workers", flush=True)
    t0 = time.time()
    with multiprocessing.Pool(j) as pool, open(dst, "a") as f:
        for i, r in enumerate(pool.imap_unordered(fn, todo)):
            if not ids:
                f.write(json.dumps(r) + "\n")
                f.flush()
            else:
                print(json.dumps(r))
            if i % 25 == 24:
                print(f"  {i+1}/{len(todo)} after {time.time()-t0:.0f}s", flush=True)
    import glob, collections
    for d in glob.glob(f"/tmp/mutsweep.{os.getpid()}.*"):
        shutil.rmtree(d, ignore_errors=True)
    res = [json.loads(l) for l in open(dst)] if not ids else []
    print(collections.Counter(r["result"] for r in res))
    if phase == "phase2":
        with open(os.path.join(out, "survivors.jsonl"), "w") as f:
            for r in sorted(res, key=lambda r: r["id"]):
                if r["result"] != "detected":
                    f.write(json.dumps(r) + "\n")


if __name__ == "__main__":
    main()
