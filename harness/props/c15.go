package props

import (
	"bytes"
	"encoding/json"
	"fmt"
	"math"
	"reflect"
	"strconv"
	"strings"
	"time"
	"unicode/utf8"
	"unsafe"

	"github.com/philpearl/plenc/plenccodec"

	"verif/mc"
)

func init() {
	register(&mc.Prop{
		ID: "C15",
		Rule: "(a) every well-nested call tree of <= N Outputter calls (N=15 quick, 18 thorough) over one scalar kind and one key, i.e. every shape incl. empty containers and every adjacency; " +
			"(b) every tree of <= 5 calls with every scalar slot and key slot substituted from the scalar/key alphabets (up to two slots at once); (c) every 1- and 2-byte string as value and as field name, every byte at first/middle/last position of a 5-byte string; " +
			"(d) boundary int64/uint64/float64/float32 values; (e) every (prefix of document A, Reset, document B) for A,B <= 5 calls; " +
			"(f) explicit-state BFS over call histories of the real JSONOutput, de-duplicated on its private state (stack, inField, depth, last two bytes), nesting depth <= 3 (quick) / 5, each state completed canonically and parsed. " +
			"non-trivial = document with at least one container or a string needing an escape",
		Assumptions: []string{"encoding/json (Valid, Decoder.Token) is the JSON oracle", "finite floats only, as the property states"},
		Work:        c15Work,
		Post: func(a *mc.Agg) []string {
			return needDims(a, "shape-tree", "depth-sweep", "alphabet-tree", "escape-1byte", "escape-2byte", "escape-5byte", "number", "reset", "bfs-state")
		},
	})
}

// jnode is a node of a call tree.
type jnode struct {
	kind string // scalar kinds, "arr", "obj"
	s    string // string payload / raw
	i    int64
	u    uint64
	f    float64
	t    time.Time
	keys []string
	kids []*jnode
}

func (n *jnode) calls() int {
	switch n.kind {
	case "arr":
		c := 2
		for _, k := range n.kids {
			c += k.calls()
		}
		return c
	case "obj":
		c := 2
		for _, k := range n.kids {
			c += 1 + k.calls()
		}
		return c
	}
	return 1
}

// emit performs the calls of the tree on out.
func (n *jnode) emit(out plenccodec.Outputter) {
	switch n.kind {
	case "arr":
		out.StartArray()
		for _, k := range n.kids {
			k.emit(out)
		}
		out.EndArray()
	case "obj":
		out.StartObject()
		for i, k := range n.kids {
			out.NameField(n.keys[i])
			k.emit(out)
		}
		out.EndObject()
	case "int":
		out.Int64(n.i)
	case "uint":
		out.Uint64(n.u)
	case "f64":
		out.Float64(n.f)
	case "f32":
		out.Float32(float32(n.f))
	case "str":
		out.String(n.s)
	case "bool":
		out.Bool(n.i != 0)
	case "time":
		out.Time(n.t)
	case "raw":
		out.Raw(n.s)
	}
}

func (n *jnode) String() string {
	switch n.kind {
	case "arr":
		var p []string
		for _, k := range n.kids {
			p = append(p, k.String())
		}
		return "[" + strings.Join(p, " ") + "]"
	case "obj":
		var p []string
		for i, k := range n.kids {
			p = append(p, strconv.Quote(n.keys[i])+":"+k.String())
		}
		return "{" + strings.Join(p, " ") + "}"
	case "int":
		return fmt.Sprintf("Int64(%d)", n.i)
	case "uint":
		return fmt.Sprintf("Uint64(%d)", n.u)
	case "f64":
		return fmt.Sprintf("Float64(%v)", n.f)
	case "f32":
		return fmt.Sprintf("Float32(%v)", float32(n.f))
	case "str":
		return fmt.Sprintf("String(%q)", n.s)
	case "bool":
		return fmt.Sprintf("Bool(%v)", n.i != 0)
	case "time":
		return "Time(" + n.t.Format(time.RFC3339Nano) + ")"
	}
	return "Raw(" + n.s + ")"
}

// canonExpected renders what the parse of the emitted JSON must look like.
// strict=false strings (invalid UTF-8) only need to parse as *some* string.
func (n *jnode) canon(b *strings.Builder) {
	switch n.kind {
	case "arr":
		b.WriteString("[")
		for _, k := range n.kids {
			k.canon(b)
			b.WriteString(",")
		}
		b.WriteString("]")
	case "obj":
		b.WriteString("{")
		for i, k := range n.kids {
			canonStr(b, n.keys[i])
			b.WriteString(":")
			k.canon(b)
			b.WriteString(",")
		}
		b.WriteString("}")
	case "int":
		b.WriteString("n:" + strconv.FormatInt(n.i, 10))
	case "uint":
		b.WriteString("n:" + strconv.FormatUint(n.u, 10))
	case "f64":
		b.WriteString("f:" + strconv.FormatUint(math.Float64bits(n.f), 16))
	case "f32":
		b.WriteString("f32:" + strconv.FormatUint(uint64(math.Float32bits(float32(n.f))), 16))
	case "str":
		canonStr(b, n.s)
	case "bool":
		b.WriteString("b:" + strconv.FormatBool(n.i != 0))
	case "time":
		if y := n.t.Year(); y < 0 || y > 9999 {
			b.WriteString("t:any") // outside RFC 3339's four-digit years: any JSON string will do
		} else {
			b.WriteString("t:" + strconv.FormatInt(n.t.Unix(), 10) + "." + strconv.Itoa(n.t.Nanosecond()))
		}
	case "raw":
		b.WriteString("n:" + n.s)
	}
}

func canonStr(b *strings.Builder, s string) {
	if utf8.ValidString(s) {
		b.WriteString("s:" + strconv.Quote(s))
	} else {
		b.WriteString("s:?") // arbitrary bytes: any string will do, the JSON must only be valid
	}
}

// parseCanon parses doc with encoding/json's tokenizer and renders it in the same
// canonical form, guided by the expected tree for the interpretation of scalars.
func parseCanon(doc []byte, exp *jnode) (string, error) {
	if !json.Valid(doc) {
		return "", fmt.Errorf("json.Valid is false")
	}
	dec := json.NewDecoder(bytes.NewReader(doc))
	dec.UseNumber()
	var b strings.Builder
	if err := parseVal(dec, exp, &b); err != nil {
		return "", err
	}
	if _, err := dec.Token(); err == nil {
		return "", fmt.Errorf("trailing tokens")
	}
	return b.String(), nil
}

func parseVal(dec *json.Decoder, exp *jnode, b *strings.Builder) error {
	tok, err := dec.Token()
	if err != nil {
		return err
	}
	return parseTok(dec, tok, exp, b)
}

func parseTok(dec *json.Decoder, tok json.Token, exp *jnode, b *strings.Builder) error {
	kidAt := func(i int) *jnode {
		if exp != nil && i < len(exp.kids) {
			return exp.kids[i]
		}
		return nil
	}
	switch t := tok.(type) {
	case json.Delim:
		switch t {
		case '[':
			b.WriteString("[")
			for i := 0; dec.More(); i++ {
				if err := parseVal(dec, kidAt(i), b); err != nil {
					return err
				}
				b.WriteString(",")
			}
			if _, err := dec.Token(); err != nil {
				return err
			}
			b.WriteString("]")
		case '{':
			b.WriteString("{")
			for i := 0; dec.More(); i++ {
				k, err := dec.Token()
				if err != nil {
					return err
				}
				ks, ok := k.(string)
				if !ok {
					return fmt.Errorf("non-string key")
				}
				if exp != nil && i < len(exp.keys) && !utf8.ValidString(exp.keys[i]) {
					b.WriteString("s:?")
				} else {
					b.WriteString("s:" + strconv.Quote(ks))
				}
				b.WriteString(":")
				if err := parseVal(dec, kidAt(i), b); err != nil {
					return err
				}
				b.WriteString(",")
			}
			if _, err := dec.Token(); err != nil {
				return err
			}
			b.WriteString("}")
		default:
			return fmt.Errorf("unexpected delimiter %v", t)
		}
	case json.Number:
		kind := "int"
		if exp != nil {
			kind = exp.kind
		}
		switch kind {
		case "f64":
			f, err := strconv.ParseFloat(string(t), 64)
			if err != nil {
				return err
			}
			b.WriteString("f:" + strconv.FormatUint(math.Float64bits(f), 16))
		case "f32":
			f, err := strconv.ParseFloat(string(t), 64)
			if err != nil {
				return err
			}
			b.WriteString("f32:" + strconv.FormatUint(uint64(math.Float32bits(float32(f))), 16))
		default:
			b.WriteString("n:" + string(t))
		}
	case string:
		if exp != nil && exp.kind == "time" {
			if y := exp.t.Year(); y < 0 || y > 9999 {
				b.WriteString("t:any")
			} else {
				tm, err := time.Parse(time.RFC3339Nano, t)
				if err != nil {
					return fmt.Errorf("time does not parse as RFC 3339: %v", err)
				}
				b.WriteString("t:" + strconv.FormatInt(tm.Unix(), 10) + "." + strconv.Itoa(tm.Nanosecond()))
			}
		} else if exp != nil && exp.kind == "str" && !utf8.ValidString(exp.s) {
			b.WriteString("s:?")
		} else {
			b.WriteString("s:" + strconv.Quote(t))
		}
	case bool:
		b.WriteString("b:" + strconv.FormatBool(t))
	case nil:
		b.WriteString("null")
	}
	return nil
}

// checkDoc emits tree on a fresh outputter and compares parse and tree.
func checkDoc(c *mc.Ctx, pre string, tree *jnode) bool {
	var j plenccodec.JSONOutput
	tree.emit(&j)
	doc := j.Done()
	c.Ops(tree.calls() + 1)
	return checkOutput(c, pre, tree, doc)
}

func checkOutput(c *mc.Ctx, pre string, tree *jnode, doc []byte) bool {
	var want strings.Builder
	tree.canon(&want)
	got, err := parseCanon(doc, tree)
	if err != nil {
		c.Violation(pre+"invalid-json", fmt.Sprintf("calls %s -> %q: %v", tree, doc, err))
		return false
	}
	if got != want.String() {
		c.Violation(pre+"parse-differs", fmt.Sprintf("calls %s -> %q parsed %s want %s", tree, doc, got, want.String()))
		return false
	}
	return true
}

// shapes enumerates every call tree with exactly n calls built from leaf().
func shapes(n int, leaf func() *jnode, f func(*jnode)) {
	if n == 1 {
		f(leaf())
	}
	if n >= 2 {
		// array with children using n-2 calls
		seqs(n-2, leaf, false, func(kids []*jnode) { f(&jnode{kind: "arr", kids: kids}) })
		seqs(n-2, leaf, true, func(kids []*jnode) {
			keys := make([]string, len(kids))
			for i := range keys {
				keys[i] = "a"
			}
			f(&jnode{kind: "obj", kids: kids, keys: keys})
		})
	}
}

// seqs enumerates every sequence of values using exactly n calls in total (each
// value costs its calls, plus one NameField call when named).
func seqs(n int, leaf func() *jnode, namedKids bool, f func([]*jnode)) {
	var rec func(left int, acc []*jnode)
	rec = func(left int, acc []*jnode) {
		if left == 0 {
			f(append([]*jnode(nil), acc...))
			return
		}
		extra := 0
		if namedKids {
			extra = 1
		}
		for k := 1; k+extra <= left; k++ {
			shapes(k, leaf, func(v *jnode) { rec(left-k-extra, append(acc, v)) })
		}
	}
	rec(n, nil)
}

var c15Scalars = []*jnode{
	{kind: "int", i: 0}, {kind: "int", i: -1}, {kind: "int", i: math.MinInt64}, {kind: "uint", u: math.MaxUint64},
	{kind: "f64", f: 1.5}, {kind: "f64", f: 1e21}, {kind: "f64", f: 5e-324}, {kind: "f64", f: -0.0}, {kind: "f32", f: float64(float32(0.1))},
	{kind: "str", s: ""}, {kind: "str", s: "x"}, {kind: "str", s: ",\n"}, {kind: "bool", i: 1}, {kind: "bool", i: 0},
	{kind: "time", t: time.Date(2020, 1, 2, 3, 4, 5, 6, time.UTC)}, {kind: "time", t: time.Date(1, 1, 1, 0, 0, 0, 0, time.UTC)}, {kind: "raw", s: "12"},
	// the edges of the time formatter: sub-microsecond digits, the limits of four-digit years, zones
	{kind: "time", t: time.Date(2021, 6, 7, 8, 9, 10, 123456789, time.UTC)}, {kind: "time", t: time.Date(2021, 6, 7, 8, 9, 10, 1, time.UTC)},
	{kind: "time", t: time.Date(0, 1, 1, 0, 0, 0, 0, time.UTC)}, {kind: "time", t: time.Date(9999, 12, 31, 23, 59, 59, 999999999, time.UTC)},
	{kind: "time", t: time.Date(10000, 1, 1, 0, 0, 0, 0, time.UTC)}, {kind: "time", t: time.Date(-1, 6, 1, 0, 0, 0, 5, time.UTC)},
	{kind: "time", t: time.Date(2020, 1, 2, 3, 4, 5, 0, time.FixedZone("e", 14*3600))}, {kind: "time", t: time.Date(2020, 1, 2, 3, 4, 5, 0, time.FixedZone("w", -(23*3600+59*60)))},
	{kind: "time", t: time.Date(1969, 12, 31, 23, 59, 59, 999000000, time.FixedZone("h", 1800))},
}
var c15Keys = []string{"", "a", "\"", "a\nb", "\\", " ", ",\n"}

func c15Work(c *mc.Ctx) {
	N := 15
	depth := 3
	if c.Tier == "thorough" {
		N, depth = 18, 5
	}
	unit := 0
	intLeaf := func() *jnode { return &jnode{kind: "int", i: 7} }
	// (a) all shapes
	for n := 1; n <= N; n++ {
		idx := 0
		shapes(n, intLeaf, func(t *jnode) {
			idx++
			unit++
			if !c.Owns(unit) {
				return
			}
			if !c.Begin(fmt.Sprintf(`{"set":"shape","calls":%d,"tree":%q}`, n, t.String())) {
				return
			}
			c.Dim("shape-tree")
			if t.kind != "int" {
				c.NonTrivial()
			}
			c.Guard("shape|", func() {
				if checkDoc(c, "shape|", t) {
					c.Outcome("ok")
				}
			})
			if c.WantSample() {
				var j plenccodec.JSONOutput
				t.emit(&j)
				c.Sample(map[string]string{"calls": t.String(), "json": string(j.Done())})
			}
		})
	}
	// (a') the nesting-depth dimension: towers of every depth 1..D for every container pattern
	// of period <= 3 (arr/obj), each level with a scalar before and after the nested container
	// (so every level is re-entered after the deep part closes), and the bare tower without siblings
	D := 80
	if c.Tier == "thorough" {
		D = 300
	}
	for _, pat := range []string{"a", "o", "ao", "oa", "aao", "ooa", "aoo", "oao"} {
		for _, sib := range []int{0, 1, 2} { // no siblings / after only / before and after
			unit++
			if !c.Owns(unit) {
				continue
			}
			for d := 1; d <= D; d++ {
				var build func(level int) *jnode
				build = func(level int) *jnode {
					if level == d {
						return intLeaf()
					}
					n := &jnode{kind: "arr"}
					if pat[level%len(pat)] == 'o' {
						n.kind = "obj"
					}
					add := func(key string, k *jnode) {
						n.kids = append(n.kids, k)
						if n.kind == "obj" {
							n.keys = append(n.keys, key)
						}
					}
					if sib == 2 {
						add("before", &jnode{kind: "str", s: "b"})
					}
					add("deep", build(level+1))
					if sib >= 1 {
						add("after", &jnode{kind: "int", i: int64(level)})
						add("last", &jnode{kind: "arr"})
					}
					return n
				}
				t := build(0)
				if !c.Begin(fmt.Sprintf(`{"set":"depth","pattern":%q,"siblings":%d,"depth":%d}`, pat, sib, d)) {
					continue
				}
				c.Dim("depth-sweep")
				c.NonTrivial()
				c.Guard("depth|", func() {
					if checkDoc(c, "depth|", t) {
						c.Outcome("ok")
					}
				})
			}
		}
	}
	// (b) alphabet substitution into all trees of <= 5 calls
	for n := 1; n <= 5; n++ {
		shapes(n, intLeaf, func(t *jnode) {
			slots := collectSlots(t)
			// one slot at a time, then every pair
			try := func(assign map[int]int) {
				unit++
				if !c.Owns(unit) {
					return
				}
				t2 := substitute(t, assign)
				if !c.Begin(fmt.Sprintf(`{"set":"alphabet","tree":%q}`, t2.String())) {
					return
				}
				c.Dim("alphabet-tree")
				c.NonTrivial()
				c.Guard("alphabet|", func() {
					if checkDoc(c, "alphabet|", t2) {
						c.Outcome("ok")
					}
				})
			}
			for s := 0; s < len(slots); s++ {
				for a := 0; a < alphaSize(slots[s]); a++ {
					try(map[int]int{s: a})
				}
			}
			for s1 := 0; s1 < len(slots); s1++ {
				for s2 := s1 + 1; s2 < len(slots); s2++ {
					for a1 := 0; a1 < alphaSize(slots[s1]); a1 += 2 {
						for a2 := 0; a2 < alphaSize(slots[s2]); a2 += 3 {
							try(map[int]int{s1: a1, s2: a2})
						}
					}
				}
			}
		})
	}
	c15Escapes(c, &unit)
	c15Numbers(c, &unit)
	c15Reset(c, &unit)
	if c.Owns(0) {
		c15BFS(c, depth)
	}
}

type slot struct {
	key  bool
	node *jnode
	idx  int
}

func collectSlots(t *jnode) []slot {
	var out []slot
	var walk func(n *jnode)
	walk = func(n *jnode) {
		switch n.kind {
		case "arr":
			for _, k := range n.kids {
				walk(k)
			}
		case "obj":
			for i, k := range n.kids {
				out = append(out, slot{key: true, node: n, idx: i})
				walk(k)
			}
		default:
			out = append(out, slot{node: n})
		}
	}
	walk(t)
	return out
}

func alphaSize(s slot) int {
	if s.key {
		return len(c15Keys)
	}
	return len(c15Scalars)
}

func substitute(t *jnode, assign map[int]int) *jnode {
	n := 0
	var cp func(x *jnode) *jnode
	cp = func(x *jnode) *jnode {
		switch x.kind {
		case "arr":
			y := &jnode{kind: "arr"}
			for _, k := range x.kids {
				y.kids = append(y.kids, cp(k))
			}
			return y
		case "obj":
			y := &jnode{kind: "obj"}
			for i, k := range x.kids {
				key := x.keys[i]
				if a, ok := assign[n]; ok {
					key = c15Keys[a]
				}
				n++
				y.keys = append(y.keys, key)
				y.kids = append(y.kids, cp(k))
			}
			return y
		}
		y := *x
		if a, ok := assign[n]; ok {
			y = *c15Scalars[a]
		}
		n++
		return &y
	}
	return cp(t)
}

func c15Escapes(c *mc.Ctx, unit *int) {
	one := func(dim, s string) {
		for _, asKey := range []bool{false, true} {
			var t *jnode
			if asKey {
				t = &jnode{kind: "obj", keys: []string{s}, kids: []*jnode{{kind: "str", s: "v"}}}
			} else {
				t = &jnode{kind: "arr", kids: []*jnode{{kind: "str", s: s}, {kind: "int", i: 1}}}
			}
			c.AddEvals(1)
			c.Count("strings", 1)
			var j plenccodec.JSONOutput
			t.emit(&j)
			checkOutput(c, "escape|"+dim+"|", t, j.Done())
			c.Ops(5)
		}
	}
	// all one-byte strings, all two-byte strings (sharded by first byte)
	for b0 := 0; b0 < 256; b0++ {
		*unit++
		if !c.Owns(*unit) || !c.Begin(fmt.Sprintf(`{"set":"escape","first_byte":%d}`, b0)) {
			continue
		}
		c.AddEvals(-1)
		c.NonTrivial()
		c.Guard("escape|", func() {
			c.Dim("escape-1byte")
			one("1byte", string([]byte{byte(b0)}))
			for b1 := 0; b1 < 256; b1++ {
				c.Dim("escape-2byte")
				one("2byte", string([]byte{byte(b0), byte(b1)}))
			}
			for _, pos := range []int{0, 2, 4} {
				c.Dim("escape-5byte")
				s := []byte("abcde")
				s[pos] = byte(b0)
				one("5byte", string(s))
			}
			// multi-byte runes around the byte
			one("utf8", "é"+string([]byte{byte(b0)})+"日  \U0001F600")
		})
		c.Outcome("escape-ok")
	}
}

func c15Numbers(c *mc.Ctx, unit *int) {
	*unit++
	if !c.Owns(*unit) || !c.Begin(`{"set":"numbers"}`) {
		return
	}
	c.AddEvals(-1)
	c.NonTrivial()
	var ints []int64
	for k := 0; k < 63; k++ {
		p := int64(1) << uint(k)
		ints = append(ints, p-1, p, p+1, -p, -p-1, -p+1)
	}
	ints = append(ints, math.MaxInt64, math.MinInt64, 0)
	var nodes []*jnode
	for _, i := range ints {
		nodes = append(nodes, &jnode{kind: "int", i: i}, &jnode{kind: "uint", u: uint64(i)})
	}
	for _, f := range []float64{0, 1, -1, 0.1, 1.5, 1e20, 1e21, 1e22, 1e-6, 1e-7, 123456789012345678, math.MaxFloat64, math.SmallestNonzeroFloat64,
		-math.MaxFloat64, math.MaxFloat32, math.SmallestNonzeroFloat32, 1e308, 2.2250738585072014e-308, 4.9e-324, 100, 1e6, 12345.678, -0.0} {
		nodes = append(nodes, &jnode{kind: "f64", f: f})
		if f32 := float64(float32(f)); !math.IsInf(f32, 0) {
			nodes = append(nodes, &jnode{kind: "f32", f: f32})
		}
	}
	for k := 0; k < 64; k++ { // every power of two as float64, and float32 where finite
		f := math.Ldexp(1, k-32)
		nodes = append(nodes, &jnode{kind: "f64", f: f}, &jnode{kind: "f64", f: f * 1.0000000000000002}, &jnode{kind: "f32", f: float64(float32(f))})
	}
	c.Guard("number|", func() {
		for _, n := range nodes {
			c.Dim("number")
			c.AddEvals(1)
			c.Count("numbers", 1)
			checkDoc(c, "number|top|", n)
			checkDoc(c, "number|arr|", &jnode{kind: "arr", kids: []*jnode{n, n}})
		}
	})
	c.Outcome("numbers-ok")
}

// flatten lists the calls of a tree as closures, so that prefixes can be run.
func flatten(t *jnode) []func(plenccodec.Outputter) {
	var out []func(plenccodec.Outputter)
	var walk func(n *jnode)
	walk = func(n *jnode) {
		switch n.kind {
		case "arr":
			out = append(out, func(o plenccodec.Outputter) { o.StartArray() })
			for _, k := range n.kids {
				walk(k)
			}
			out = append(out, func(o plenccodec.Outputter) { o.EndArray() })
		case "obj":
			out = append(out, func(o plenccodec.Outputter) { o.StartObject() })
			for i, k := range n.kids {
				key := n.keys[i]
				out = append(out, func(o plenccodec.Outputter) { o.NameField(key) })
				walk(k)
			}
			out = append(out, func(o plenccodec.Outputter) { o.EndObject() })
		default:
			out = append(out, func(o plenccodec.Outputter) { n.emit(o) })
		}
	}
	walk(t)
	return out
}

func c15Reset(c *mc.Ctx, unit *int) {
	var docs []*jnode
	strLeaf := func() *jnode { return &jnode{kind: "str", s: "s"} }
	for n := 1; n <= 5; n++ {
		shapes(n, strLeaf, func(t *jnode) { docs = append(docs, t) })
	}
	for ai, a := range docs {
		*unit++
		if !c.Owns(*unit) || !c.Begin(fmt.Sprintf(`{"set":"reset","docA":%q,"docsB":%d}`, a.String(), len(docs))) {
			continue
		}
		c.AddEvals(-1)
		c.NonTrivial()
		calls := flatten(a)
		c.Guard("reset|", func() {
			for cut := 0; cut <= len(calls); cut++ {
				for _, b := range docs {
					c.Dim("reset")
					c.AddEvals(1)
					c.Count("reset_histories", 1)
					var j plenccodec.JSONOutput
					for _, f := range calls[:cut] {
						f(&j)
					}
					if cut == len(calls) && ai%2 == 0 {
						j.Done()
					}
					j.Reset()
					b.emit(&j)
					got := append([]byte(nil), j.Done()...)
					var fresh plenccodec.JSONOutput
					b.emit(&fresh)
					want := fresh.Done()
					c.Ops(cut + 2*b.calls() + 3)
					if !bytes.Equal(got, want) {
						c.Violation("reset|differs-from-new", fmt.Sprintf("after %d calls of %s + Reset, %s gives %q, a new outputter %q", cut, a, b, got, want))
					}
					checkOutput(c, "reset|", b, got)
				}
			}
		})
		c.Outcome("reset-ok")
	}
}

// ---------------------------------------------------------------------------
// (f) explicit-state BFS over the real object

type jop struct {
	name string
	do   func(o *plenccodec.JSONOutput)
}

// privKey dumps the private state the outputter's punctuation logic reads.
func privKey(j *plenccodec.JSONOutput) string {
	rv := reflect.ValueOf(j).Elem()
	var b strings.Builder
	for i := 0; i < rv.NumField(); i++ {
		f := rv.Field(i)
		name := rv.Type().Field(i).Name
		f = reflect.NewAt(f.Type(), unsafe.Pointer(f.UnsafeAddr())).Elem()
		if f.Kind() == reflect.Slice && f.Type().Elem().Kind() == reflect.Uint8 {
			d := f.Bytes()
			if len(d) > 2 {
				d = d[len(d)-2:]
			}
			fmt.Fprintf(&b, "%s=…%q;", name, d)
			continue
		}
		fmt.Fprintf(&b, "%s=%v;", name, f.Interface())
	}
	return b.String()
}

// gstate is the grammar state that decides which calls keep the sequence well nested.
type gframe struct {
	obj     bool
	wantKey bool
}

func c15BFS(c *mc.Ctx, maxDepth int) {
	type hist struct {
		ops   []jop
		stack []gframe
		done  bool // top-level value complete
		tree  string
	}
	scalar := jop{"Int64(7)", func(o *plenccodec.JSONOutput) { o.Int64(7) }}
	str := jop{`String("s")`, func(o *plenccodec.JSONOutput) { o.String("s") }}
	replay := func(h hist) *plenccodec.JSONOutput {
		var j plenccodec.JSONOutput
		for _, op := range h.ops {
			op.do(&j)
		}
		return &j
	}
	// complete closes everything that is open so the document can be parsed
	complete := func(h hist) []byte {
		j := replay(h)
		st := append([]gframe(nil), h.stack...)
		for len(st) > 0 {
			top := &st[len(st)-1]
			if top.obj && !top.wantKey {
				j.Int64(0)
				top.wantKey = true
				continue
			}
			if top.obj {
				j.EndObject()
			} else {
				j.EndArray()
			}
			st = st[:len(st)-1]
			if len(st) > 0 && st[len(st)-1].obj {
				st[len(st)-1].wantKey = true
			}
		}
		if len(h.stack) == 0 && !h.done {
			j.Int64(0)
		}
		return append([]byte(nil), j.Done()...)
	}
	seen := map[string]string{} // private-state key -> validity verdict of first history
	frontier := []hist{{}}
	states, transitions, maxLen := 0, 0, 0
	for len(frontier) > 0 {
		h := frontier[0]
		frontier = frontier[1:]
		if len(h.ops) > maxLen {
			maxLen = len(h.ops)
		}
		// enabled operations
		var ops []struct {
			op   jop
			next func(st []gframe) ([]gframe, bool)
		}
		add := func(op jop, next func(st []gframe) ([]gframe, bool)) {
			ops = append(ops, struct {
				op   jop
				next func(st []gframe) ([]gframe, bool)
			}{op, next})
		}
		valueDone := func(st []gframe) ([]gframe, bool) {
			if len(st) == 0 {
				return st, true
			}
			if st[len(st)-1].obj {
				st[len(st)-1].wantKey = true
			}
			return st, false
		}
		top := gframe{}
		if len(h.stack) > 0 {
			top = h.stack[len(h.stack)-1]
		}
		canValue := !h.done && (len(h.stack) == 0 || !top.obj || !top.wantKey)
		if canValue {
			add(scalar, valueDone)
			add(str, valueDone)
			if len(h.stack) < maxDepth {
				add(jop{"StartArray", func(o *plenccodec.JSONOutput) { o.StartArray() }}, func(st []gframe) ([]gframe, bool) { return append(st, gframe{}), false })
				add(jop{"StartObject", func(o *plenccodec.JSONOutput) { o.StartObject() }}, func(st []gframe) ([]gframe, bool) { return append(st, gframe{obj: true, wantKey: true}), false })
			}
		}
		if len(h.stack) > 0 && top.obj && top.wantKey {
			add(jop{`NameField("k")`, func(o *plenccodec.JSONOutput) { o.NameField("k") }}, func(st []gframe) ([]gframe, bool) { st[len(st)-1].wantKey = false; return st, false })
			add(jop{"EndObject", func(o *plenccodec.JSONOutput) { o.EndObject() }}, func(st []gframe) ([]gframe, bool) { return valueDone(st[:len(st)-1]) })
		}
		if len(h.stack) > 0 && !top.obj {
			add(jop{"EndArray", func(o *plenccodec.JSONOutput) { o.EndArray() }}, func(st []gframe) ([]gframe, bool) { return valueDone(st[:len(st)-1]) })
		}
		for _, e := range ops {
			nh := hist{ops: append(append([]jop(nil), h.ops...), e.op)}
			st, done := e.next(append([]gframe(nil), h.stack...))
			nh.stack, nh.done = st, done
			transitions++
			j := replay(nh)
			key := privKey(j) + fmt.Sprintf("|g=%v,%v", nh.stack, nh.done)
			doc := complete(nh)
			verdict := "valid"
			if !json.Valid(doc) {
				verdict = "invalid"
			}
			names := make([]string, len(nh.ops))
			for i, o := range nh.ops {
				names[i] = o.name
			}
			if verdict == "invalid" {
				if c.Begin(fmt.Sprintf(`{"set":"bfs","history":%q}`, strings.Join(names, " "))) {
					c.Violation("bfs|invalid-json-after-canonical-completion", fmt.Sprintf("history %s completed to %q", strings.Join(names, " "), doc))
				}
			}
			if prev, ok := seen[key]; ok {
				if prev != verdict {
					c.MachineErr("C15 BFS: two histories with the same private state disagree on validity (canonicalisation unsound): " + key)
				}
				continue
			}
			seen[key] = verdict
			states++
			c.Dim("bfs-state")
			frontier = append(frontier, nh)
		}
	}
	if c.Begin(fmt.Sprintf(`{"set":"bfs","states":%d,"transitions":%d,"longest_history":%d,"max_nesting":%d}`, states, transitions, maxLen, maxDepth)) {
		c.AddEvals(-1)
		c.AddEvals(int64(transitions))
		c.Count("bfs_states", int64(states))
		c.Count("bfs_transitions", int64(transitions))
		c.Count("bfs_longest_history", int64(maxLen))
		c.Outcome("bfs-ok")
		c.Sample(map[string]any{"bfs": "frontier exhausted", "states": states, "transitions": transitions, "longest_history_calls": maxLen})
	}
}
