package ref

import (
	"fmt"
	"math"
	"reflect"
	"sort"
	"strconv"
	"strings"
	"time"

	"github.com/unravelin/null"
)

// V is a model value: a tree mirroring a T.
type V struct {
	U   uint64 // bool 0/1, ints as two's complement, uints, float bits
	S   string // string and []byte contents
	Nil bool   // nil []byte / pointer / slice / map; !Valid for null types
	Sec int64  // time: unix seconds
	Ns  int32  // time: nanoseconds
	Off int32  // time: zone offset in seconds east of UTC
	E   []V    // ptr: [target]; slice: elements; struct: fields; map: k0,v0,k1,v1,...
}

const zeroTimeSec = -62135596800

// Zero returns the Go zero value of t.
func Zero(t *T) V {
	switch t.K {
	case KBytes, KPtr, KSlice, KMap:
		return V{Nil: true}
	case KTime:
		return V{Sec: zeroTimeSec}
	case KNullInt, KNullBool, KNullFloat, KNullString:
		return V{Nil: true}
	case KNullTime:
		return V{Nil: true, Sec: zeroTimeSec}
	case KStruct:
		v := V{E: make([]V, len(t.Fields))}
		for i, f := range t.Fields {
			v.E[i] = Zero(f.T)
		}
		return v
	}
	return V{}
}

func bits(t *T) int {
	switch t.K {
	case KInt8, KUint8:
		return 8
	case KInt16, KUint16:
		return 16
	case KInt32, KUint32:
		return 32
	}
	return 64
}

// Str renders v (of type t) canonically; equality of model values is equality of
// this string. Map entries are sorted so order never matters.
func Str(t *T, v V) string {
	var b strings.Builder
	str(&b, t, v)
	return b.String()
}

func str(b *strings.Builder, t *T, v V) {
	switch t.K {
	case KBool:
		b.WriteString(strconv.FormatBool(v.U != 0))
	case KInt, KInt8, KInt16, KInt32, KInt64:
		b.WriteString(strconv.FormatInt(int64(v.U), 10))
	case KUint, KUint8, KUint16, KUint32, KUint64:
		b.WriteString(strconv.FormatUint(v.U, 10) + "u")
	case KFloat32:
		fmt.Fprintf(b, "f32:%08x", uint32(v.U))
	case KFloat64:
		fmt.Fprintf(b, "f64:%016x", v.U)
	case KString:
		b.WriteString(strconv.Quote(short(v.S)))
	case KBytes:
		if v.Nil {
			b.WriteString("nilbytes")
		} else {
			fmt.Fprintf(b, "b%q", short(v.S))
		}
	case KTime:
		fmt.Fprintf(b, "t(%d,%d,%+d)", v.Sec, v.Ns, v.Off)
	case KNullInt:
		if v.Nil {
			b.WriteString("null")
		} else {
			b.WriteString("valid:" + strconv.FormatInt(int64(v.U), 10))
		}
	case KNullBool:
		if v.Nil {
			b.WriteString("null")
		} else {
			b.WriteString("valid:" + strconv.FormatBool(v.U != 0))
		}
	case KNullFloat:
		if v.Nil {
			b.WriteString("null")
		} else {
			fmt.Fprintf(b, "valid:f64:%016x", v.U)
		}
	case KNullString:
		if v.Nil {
			b.WriteString("null")
		} else {
			b.WriteString("valid:" + strconv.Quote(short(v.S)))
		}
	case KNullTime:
		if v.Nil {
			b.WriteString("null")
		} else {
			fmt.Fprintf(b, "valid:t(%d,%d,%+d)", v.Sec, v.Ns, v.Off)
		}
	case KPtr:
		if v.Nil {
			b.WriteString("nil")
		} else {
			b.WriteString("&")
			str(b, t.Elem, v.E[0])
		}
	case KSlice:
		if v.Nil {
			b.WriteString("nil[]")
			return
		}
		b.WriteString("[")
		for i, e := range v.E {
			if i > 0 {
				b.WriteString(",")
			}
			str(b, t.Elem, e)
		}
		b.WriteString("]")
	case KMap:
		if v.Nil {
			b.WriteString("nilmap")
			return
		}
		ents := make([]string, 0, len(v.E)/2)
		for i := 0; i+1 < len(v.E); i += 2 {
			ents = append(ents, Str(t.Key, v.E[i])+":"+Str(t.Elem, v.E[i+1]))
		}
		sort.Strings(ents)
		b.WriteString("{" + strings.Join(ents, ",") + "}")
	case KStruct:
		b.WriteString("{")
		for i, f := range t.Fields {
			if i > 0 {
				b.WriteString(";")
			}
			str(b, f.T, v.E[i])
		}
		b.WriteString("}")
	}
}

// short abbreviates long uniform strings so canonical forms stay small but unique.
func short(s string) string {
	if len(s) <= 40 {
		return s
	}
	h := uint64(14695981039346656037)
	for i := 0; i < len(s); i++ {
		h = (h ^ uint64(s[i])) * 1099511628211
	}
	return fmt.Sprintf("%s…len=%d,h=%x", s[:8], len(s), h)
}

// ToReflect builds a fresh Go value of t.Reflect() holding v.
func ToReflect(t *T, v V) reflect.Value {
	rv := reflect.New(t.Reflect()).Elem()
	setReflect(t, rv, v)
	return rv
}

func mkTime(v V) time.Time {
	if v.Sec == zeroTimeSec && v.Ns == 0 && v.Off == 0 {
		return time.Time{}
	}
	tm := time.Unix(v.Sec, int64(v.Ns))
	if v.Off == 0 {
		return tm.UTC()
	}
	return tm.In(time.FixedZone("Z", int(v.Off)))
}

func setReflect(t *T, rv reflect.Value, v V) {
	switch t.K {
	case KBool:
		rv.SetBool(v.U != 0)
	case KInt, KInt8, KInt16, KInt32, KInt64:
		rv.SetInt(int64(v.U))
	case KUint, KUint8, KUint16, KUint32, KUint64:
		rv.SetUint(v.U)
	case KFloat32:
		rv.Set(reflect.ValueOf(math.Float32frombits(uint32(v.U))).Convert(rv.Type()))
	case KFloat64:
		rv.SetFloat(math.Float64frombits(v.U))
	case KString:
		rv.SetString(v.S)
	case KBytes:
		if !v.Nil {
			rv.SetBytes(append(make([]byte, 0, len(v.S)), v.S...))
		}
	case KTime:
		rv.Set(reflect.ValueOf(mkTime(v)))
	case KNullInt:
		rv.Set(reflect.ValueOf(null.NewInt(int64(v.U), !v.Nil)))
	case KNullBool:
		rv.Set(reflect.ValueOf(null.NewBool(v.U != 0, !v.Nil)))
	case KNullFloat:
		rv.Set(reflect.ValueOf(null.NewFloat(math.Float64frombits(v.U), !v.Nil)))
	case KNullString:
		rv.Set(reflect.ValueOf(null.NewString(v.S, !v.Nil)))
	case KNullTime:
		rv.Set(reflect.ValueOf(null.NewTime(mkTime(v), !v.Nil)))
	case KPtr:
		if !v.Nil {
			p := reflect.New(t.Elem.Reflect())
			setReflect(t.Elem, p.Elem(), v.E[0])
			rv.Set(p)
		}
	case KSlice:
		if !v.Nil {
			s := reflect.MakeSlice(rv.Type(), len(v.E), len(v.E))
			for i, e := range v.E {
				setReflect(t.Elem, s.Index(i), e)
			}
			rv.Set(s)
		}
	case KMap:
		if !v.Nil {
			m := reflect.MakeMap(rv.Type())
			for i := 0; i+1 < len(v.E); i += 2 {
				m.SetMapIndex(ToReflect(t.Key, v.E[i]), ToReflect(t.Elem, v.E[i+1]))
			}
			rv.Set(m)
		}
	case KStruct:
		for i, f := range t.Fields {
			setReflect(f.T, rv.Field(i), v.E[i])
		}
	}
}

func fromTime(tm time.Time) V {
	_, off := tm.Zone()
	return V{Sec: tm.Unix(), Ns: int32(tm.Nanosecond()), Off: int32(off)}
}

// FromReflect converts a Go value back to a model value.
func FromReflect(t *T, rv reflect.Value) V {
	switch t.K {
	case KBool:
		if rv.Bool() {
			return V{U: 1}
		}
		return V{}
	case KInt, KInt8, KInt16, KInt32, KInt64:
		return V{U: uint64(rv.Int())}
	case KUint, KUint8, KUint16, KUint32, KUint64:
		return V{U: rv.Uint()}
	case KFloat32:
		return V{U: uint64(math.Float32bits(float32(rv.Float())))}
	case KFloat64:
		return V{U: math.Float64bits(rv.Float())}
	case KString:
		return V{S: rv.String()}
	case KBytes:
		if rv.IsNil() {
			return V{Nil: true}
		}
		return V{S: string(rv.Bytes())}
	case KTime:
		return fromTime(rv.Interface().(time.Time))
	case KNullInt:
		n := rv.Interface().(null.Int)
		return V{U: uint64(n.Int64), Nil: !n.Valid}
	case KNullBool:
		n := rv.Interface().(null.Bool)
		v := V{Nil: !n.Valid}
		if n.Bool {
			v.U = 1
		}
		return v
	case KNullFloat:
		n := rv.Interface().(null.Float)
		return V{U: math.Float64bits(n.Float64), Nil: !n.Valid}
	case KNullString:
		n := rv.Interface().(null.String)
		return V{S: n.String, Nil: !n.Valid}
	case KNullTime:
		n := rv.Interface().(null.Time)
		v := fromTime(n.Time)
		v.Nil = !n.Valid
		return v
	case KPtr:
		if rv.IsNil() {
			return V{Nil: true}
		}
		return V{E: []V{FromReflect(t.Elem, rv.Elem())}}
	case KSlice:
		if rv.IsNil() {
			return V{Nil: true}
		}
		v := V{E: make([]V, rv.Len())}
		for i := range v.E {
			v.E[i] = FromReflect(t.Elem, rv.Index(i))
		}
		return v
	case KMap:
		if rv.IsNil() {
			return V{Nil: true}
		}
		v := V{E: make([]V, 0, 2*rv.Len())}
		it := rv.MapRange()
		for it.Next() {
			v.E = append(v.E, FromReflect(t.Key, it.Key()), FromReflect(t.Elem, it.Value()))
		}
		return v
	case KStruct:
		v := V{E: make([]V, len(t.Fields))}
		for i, f := range t.Fields {
			v.E[i] = FromReflect(f.T, rv.Field(i))
		}
		return v
	}
	panic("FromReflect: bad kind")
}

// ---------------------------------------------------------------------------
// Boundary-value universe (DESIGN §6). lvl 2 = full, 1 = reduced, 0 = minimal.

func intVals(nb int, lvl int) []int64 {
	min := int64(-1) << (nb - 1)
	max := -(min + 1)
	var out []int64
	add := func(x int64) {
		if x < min || x > max {
			return
		}
		for _, y := range out {
			if y == x {
				return
			}
		}
		out = append(out, x)
	}
	add(0)
	switch lvl {
	case 0:
		add(-3)
	case 1:
		for _, x := range []int64{1, -1, 63, 64, -64, -65, max, min} {
			add(x)
		}
	default:
		add(1)
		add(-1)
		for k := 1; k <= 9; k++ {
			b := int64(1) << (7*k - 1)
			add(b - 1)
			add(b)
			add(-b)
			add(-b - 1)
		}
		add(max)
		add(min)
		add(max - 1)
		add(min + 1)
	}
	return out
}

func uintVals(nb int, lvl int) []uint64 {
	max := ^uint64(0) >> (64 - nb)
	var out []uint64
	add := func(x uint64) {
		if x > max {
			return
		}
		for _, y := range out {
			if y == x {
				return
			}
		}
		out = append(out, x)
	}
	add(0)
	switch lvl {
	case 0:
		add(5)
	case 1:
		for _, x := range []uint64{1, 127, 128, max} {
			add(x)
		}
	default:
		add(1)
		for k := 1; k <= 9; k++ {
			add(uint64(1)<<(7*k) - 1)
			add(uint64(1) << (7 * k))
		}
		add(max)
		add(max - 1)
	}
	return out
}

func rep(b byte, n int) string { return strings.Repeat(string([]byte{b}), n) }

// Values returns the boundary-value universe of t at richness lvl. The first
// value is always the zero value.
func Values(t *T, lvl int) []V {
	if lvl < 0 {
		lvl = 0
	}
	if t.Named != "" && t.K == KStruct {
		// recursive types: unfold at most twice below the outermost occurrence
		if valDepth[t] >= 2 {
			return []V{Zero(t)}
		}
		valDepth[t]++
		defer func() { valDepth[t]-- }()
	}
	var out []V
	switch t.K {
	case KBool:
		return []V{{}, {U: 1}}
	case KInt, KInt8, KInt16, KInt32, KInt64:
		for _, x := range intVals(bits(t), lvl) {
			out = append(out, V{U: uint64(x)})
		}
	case KUint, KUint8, KUint16, KUint32, KUint64:
		for _, x := range uintVals(bits(t), lvl) {
			out = append(out, V{U: x})
		}
	case KFloat32:
		fs := []uint32{0, 0x3fc00000}
		if lvl >= 1 {
			fs = append(fs, 0x80000000, 0xbfc00000)
		}
		if lvl >= 2 {
			fs = append(fs, 1, 0x7f7fffff, 0x7f800000, 0xff800000, 0x7fc00001, 0x3f800000)
		}
		for _, f := range fs {
			out = append(out, V{U: uint64(f)})
		}
	case KFloat64:
		fs := []uint64{0, math.Float64bits(1.5)}
		if lvl >= 1 {
			fs = append(fs, 1<<63, math.Float64bits(-1.5))
		}
		if lvl >= 2 {
			fs = append(fs, 1, math.Float64bits(math.MaxFloat64), math.Float64bits(math.Inf(1)), math.Float64bits(math.Inf(-1)),
				0x7ff8000000000001, math.Float64bits(1))
		}
		for _, f := range fs {
			out = append(out, V{U: f})
		}
	case KString:
		ss := []string{"", "a"}
		if lvl >= 1 {
			ss = append(ss, "\x00", rep('x', 128))
		}
		if lvl >= 2 {
			ss = append(ss, "\xff\xfe", rep('y', 127), "日本")
		}
		if lvl >= 3 {
			ss = append(ss, rep('z', 16384))
		}
		for _, s := range ss {
			out = append(out, V{S: s})
		}
	case KBytes:
		out = []V{{Nil: true}, {S: "\x01"}}
		if lvl >= 1 {
			out = append(out, V{S: ""}, V{S: "\xff\x00"})
		}
		if lvl >= 2 {
			out = append(out, V{S: "\x00"}, V{S: rep(0x80, 128)})
		}
	case KTime:
		out = timeVals(lvl)
	case KNullInt:
		out = []V{{Nil: true}}
		for _, x := range intVals(64, lvl) {
			out = append(out, V{U: uint64(x)})
		}
	case KNullBool:
		out = []V{{Nil: true}, {}, {U: 1}}
	case KNullFloat:
		out = []V{{Nil: true}}
		for _, x := range Values(Leaf(KFloat64), lvl) {
			out = append(out, V{U: x.U})
		}
	case KNullString:
		out = []V{{Nil: true}}
		for _, x := range Values(Leaf(KString), lvl) {
			out = append(out, V{S: x.S})
		}
	case KNullTime:
		out = []V{{Nil: true, Sec: zeroTimeSec}}
		for _, x := range timeVals(lvl) {
			out = append(out, x)
		}
	case KPtr:
		out = []V{{Nil: true}}
		for _, e := range Values(t.Elem, lvl) {
			out = append(out, V{E: []V{e}})
		}
	case KSlice:
		ev := Values(t.Elem, lvl-1)
		z, nz, nz2 := ev[0], ev[len(ev)-1], ev[len(ev)-1]
		if len(ev) > 2 {
			nz2 = ev[1]
		}
		out = []V{{Nil: true}, {E: []V{nz}}}
		if lvl >= 1 {
			out = append(out, V{E: []V{}}, V{E: []V{z}}, V{E: []V{z, nz}}, V{E: []V{nz, z, nz2}})
			for _, e := range Values(t.Elem, lvl) {
				out = append(out, V{E: []V{e}})
			}
		}
		if lvl >= 2 {
			// lengths around the growth steps of the decoders (8, 16, 32) and where the byte
			// length of packed fixed-width elements crosses 128 while the count does not
			for _, n := range []int{9, 17, 33} {
				l := make([]V, n)
				for i := range l {
					l[i] = ev[(i+1)%len(ev)]
				}
				out = append(out, V{E: l})
			}
		}
		if lvl >= 3 {
			for _, n := range []int{127, 128, 129} {
				big := make([]V, n)
				for i := range big {
					big[i] = ev[i%len(ev)]
				}
				out = append(out, V{E: big})
			}
		}
	case KMap:
		kv := distinctKeys(t.Key, Values(t.Key, lvl-1))
		vv := Values(t.Elem, lvl-1)
		zk, nzk := kv[0], kv[len(kv)-1]
		zv, nzv := vv[0], vv[len(vv)-1]
		out = []V{{Nil: true}, {E: []V{nzk, nzv}}}
		if lvl >= 1 {
			out = append(out, V{E: []V{}}, V{E: []V{zk, zv}}, V{E: []V{zk, nzv}}, V{E: []V{nzk, zv}})
			if Str(t.Key, zk) != Str(t.Key, nzk) {
				out = append(out, V{E: []V{zk, zv, nzk, nzv}}, V{E: []V{zk, nzv, nzk, zv}}, V{E: []V{nzk, nzv, zk, zv}})
			}
			for _, k := range distinctKeys(t.Key, Values(t.Key, lvl)) {
				out = append(out, V{E: []V{k, nzv}})
			}
			for _, v := range Values(t.Elem, lvl) {
				out = append(out, V{E: []V{nzk, v}}, V{E: []V{zk, v}})
			}
			if len(kv) > 2 {
				out = append(out, V{E: []V{kv[1], nzv, zk, zv, nzk, vv[len(vv)/2]}})
			}
		}
	case KStruct:
		n := len(t.Fields)
		zero := Zero(t)
		out = []V{zero}
		fv := make([][]V, n)
		red := make([][]V, n)
		for i, f := range t.Fields {
			fv[i] = Values(f.T, lvl)
			red[i] = Values(f.T, lvl-1)
		}
		with := func(base V, i int, x V) V {
			c := V{E: append([]V(nil), base.E...)}
			c.E[i] = x
			return c
		}
		// every single field at every one of its values
		for i := 0; i < n; i++ {
			for _, x := range fv[i][1:] {
				out = append(out, with(zero, i, x))
			}
		}
		// all fields non-zero
		if n > 1 {
			all := zero
			for i := 0; i < n; i++ {
				all = with(all, i, red[i][len(red[i])-1])
			}
			out = append(out, all)
		}
		// every pair of fields over the reduced sets
		if lvl >= 1 {
			for i := 0; i < n; i++ {
				for j := i + 1; j < n; j++ {
					for _, x := range red[i][1:] {
						for _, y := range red[j][1:] {
							out = append(out, with(with(zero, i, x), j, y))
						}
					}
				}
			}
		}
	}
	return dedupe(t, out)
}

var valDepth = map[*T]int{}

func timeVals(lvl int) []V {
	out := []V{{Sec: zeroTimeSec}, {Sec: 1700000000, Ns: 123456789}}
	if lvl >= 1 {
		out = append(out, V{Sec: 0}, V{Sec: -1, Ns: 999999999}, V{Sec: 1600000000, Ns: 5, Off: 3600})
	}
	if lvl >= 2 {
		out = append(out, V{Sec: 0, Ns: 1}, V{Sec: zeroTimeSec - 3600, Off: 3600}, V{Sec: 253402300799, Ns: 999999999},
			V{Sec: 63, Ns: 64}, V{Sec: -64, Ns: 63}, V{Sec: 1600000000, Off: -7 * 3600},
			// beyond RFC 3339's four-digit years on both sides, and an extreme zone
			V{Sec: 253402300800, Ns: 1}, V{Sec: zeroTimeSec - 400*86400, Ns: 5}, V{Sec: 1600000000, Ns: 1000, Off: 14 * 3600})
	}
	return out
}

func dedupe(t *T, vs []V) []V {
	seen := map[string]bool{}
	out := vs[:0:0]
	for _, v := range vs {
		s := Str(t, v)
		if !seen[s] {
			seen[s] = true
			out = append(out, v)
		}
	}
	return out
}

// distinctKeys removes keys that Go would consider equal (e.g. +0/-0) or that are
// not equal to themselves (NaN), keeping the first of each.
func distinctKeys(t *T, ks []V) []V {
	var out []V
	var rvs []reflect.Value
	for _, k := range ks {
		rv := ToReflect(t, k)
		if !rv.Equal(rv) {
			continue
		}
		dup := false
		for _, o := range rvs {
			if o.Equal(rv) {
				dup = true
				break
			}
		}
		if !dup {
			out = append(out, k)
			rvs = append(rvs, rv)
		}
	}
	return out
}

// NestedAbsent reports whether v contains a non-nil pointer whose target is absent
// (a nil pointer or an invalid null.X): two levels of presence, which the encoding
// cannot express (C01's ledgered finding).
func NestedAbsent(t *T, v V) bool {
	switch t.K {
	case KPtr:
		if v.Nil {
			return false
		}
		if t.Elem.K == KPtr && v.E[0].Nil {
			return true
		}
		if isNull(t.Elem.K) && v.E[0].Nil {
			return true
		}
		return NestedAbsent(t.Elem, v.E[0])
	case KSlice:
		for _, e := range v.E {
			if NestedAbsent(t.Elem, e) {
				return true
			}
		}
	case KMap:
		for i := 0; i+1 < len(v.E); i += 2 {
			if NestedAbsent(t.Key, v.E[i]) || NestedAbsent(t.Elem, v.E[i+1]) {
				return true
			}
		}
	case KStruct:
		for i, f := range t.Fields {
			if NestedAbsent(f.T, v.E[i]) {
				return true
			}
		}
	}
	return false
}

// ShiftStrings returns a copy of v in which every byte of every non-empty string /
// byte slice is shifted by k: same shape, same lengths, different contents.
func ShiftStrings(t *T, v V, k byte) V {
	o := v
	switch t.K {
	case KString, KBytes, KNullString:
		b := []byte(v.S)
		for i := range b {
			b[i] += k
		}
		o.S = string(b)
	case KPtr, KSlice, KStruct, KMap:
		o.E = make([]V, len(v.E))
		for i, e := range v.E {
			var et *T
			switch t.K {
			case KPtr, KSlice:
				et = t.Elem
			case KStruct:
				et = t.Fields[i].T
			case KMap:
				if i%2 == 0 {
					et = t.Key
				} else {
					et = t.Elem
				}
			}
			o.E[i] = ShiftStrings(et, e, k)
		}
	}
	return o
}

// Big builds a value of t with n elements / entries / bytes (all distinct where the type
// allows), for the amplification inputs of C04. ok is false for types without a size.
func Big(t *T, n int) (V, bool) {
	pick := func(e *T, i int) V {
		vals := Values(e, 1)
		var good []V
		for _, v := range vals[1:] {
			if !NestedAbsent(e, v) && !(e.K == KPtr && v.Nil) {
				good = append(good, v)
			}
		}
		if len(good) == 0 {
			return Zero(e)
		}
		return good[i%len(good)]
	}
	switch t.K {
	case KString, KBytes:
		b := make([]byte, n)
		for i := range b {
			b[i] = byte('a' + i%23)
		}
		return V{S: string(b)}, true
	case KSlice:
		x := V{E: make([]V, n)}
		for i := range x.E {
			x.E[i] = pick(t.Elem, i)
		}
		return x, true
	case KMap:
		x := V{}
		for i := 0; i < n; i++ {
			var k V
			switch t.Key.K {
			case KString:
				k = V{S: "k" + itoa(i)}
			case KInt, KInt64, KUint, KUint64, KInt32, KUint32:
				k = V{U: uint64(i + 1)}
			case KStruct:
				k = V{E: make([]V, len(t.Key.Fields))}
				for j, f := range t.Key.Fields {
					k.E[j] = Zero(f.T)
					if f.T.K == KInt || f.T.K == KUint || f.T.K == KInt64 {
						k.E[j] = V{U: uint64(i*7 + j)}
					}
				}
			default:
				return V{}, false
			}
			x.E = append(x.E, k, pick(t.Elem, i))
		}
		return x, true
	case KPtr:
		e, ok := Big(t.Elem, n)
		return V{E: []V{e}}, ok
	}
	return V{}, false
}
