#!/usr/bin/env python3
"""Regenerates /verif/MANIFEST.json from the table below (kept valid at all times)."""
import json, os, sys

V = "/verif"
BASE_OFF = "cd /repo && GOFLAGS=-mod=mod GOPROXY=off GOSUMDB=off GOTOOLCHAIN=local go test -json -vet=off -count=1 -timeout 25m ./..."

# id -> (engine, technique, level text, level note, design ref)
CHECKS = {
 "C01": ("E1-enum", "bounded exhaustive enumeration of (configuration x type-in-position x boundary value) on the real code against an independent reference model",
   "Every tuple of the bounded universe (4 configurations, ~4 000 run-time built types incl. named twins of every basic kind in 6 positions, boundary values with <=2 non-default fields per struct level, the zero map key paired with every value, slice lengths 0-3, 9, 17, 33 and in thorough 127-129) is executed on the real Marshal/Unmarshal, each on a fresh Plenc instance; the decoded value must equal ref.Expect. Exhaustive inside the stated bounds, nothing sampled.",
   "Trusted: the reference model (ref.Expect/ref.Accept, written from README + Appendix A of DESIGN.md), reflect, the Go runtime. Outside the bound: deeper types, more simultaneous deviations (DESIGN §10).", "§7 C01"),
 "C02": ("E1-enum", "bounded exhaustive enumeration; real Marshal bytes matched against an independent reference encoding tree; reference bytes re-ordered exhaustively and decoded by the real Unmarshal",
   "Same universe as C01. Encode side: byte-for-byte agreement (map entries in any order) with a reference encoder written from the documentation and bound to the 19 golden files on every run. Decode side: every permutation of the outermost struct's fields (<=4 fields) and a fully reversed rendering must decode to the same value as the declared order.",
   "Trusted: ref.EncTop (independent encoder), the golden files. Value-before-key inside a map entry is not demanded (README).", "§7 C02"),
 "C05": ("E1-enum", "bounded exhaustive enumeration of codecs x values x tags checking the Size/Append/Read/framing laws on the real Codec objects, plus a schema-directed framing walker",
   "For every type of the universe (whole type and base type under its tag option) and every boundary value, the codec obtained from CodecForType is driven directly: Size==len(Append) for nil/1/2/5-byte tags, tagged form == tag+[len]+untagged body, Read(body) consumes len(body), and every Marshal output is walked by a value-blind, schema-directed framing checker to its exact end. Exported time codecs (BQTimestampCodec, TimeCompatCodec) over the time universe.",
   "Trusted: the framing walker ref.Walk, the wire-class model ref.ClassOf. JSON-any codecs are exercised by C16.", "§7 C05"),
 "C18": ("E1-enum", "exhaustive enumeration of closed numeric sets and of all short byte strings against independent references (encoding/binary, a reference skipper)",
   "Varint/zig-zag: every uint64 whose 7-bit groups come from {00,01,3f,40,7f} (3.9M), every 2^k+-1, every value with <=3 bits set and its complement, thorough: all 2^32 values v and v<<32. Tags: wire types 0-7 x every index <=2^16 plus boundaries to 2^28. Skip: every reference-encoded field x suffix, every truncation, every byte string of length <=2 (thorough <=3) x wire types 0-7, and boundary-varint token strings, decided against a reference skipper (well-formed => exact length, malformed/truncated => error).",
   "Trusted: encoding/binary, the reference skipper in props/c18.go. Varints longer than 10 bytes are a declared grey zone for Skip.", "§7 C18"),
 "C15": ("E2-bfs+E1-enum", "exhaustive enumeration of all well-nested call trees up to a call bound on the real JSONOutput, exhaustive 1- and 2-byte strings, all (prefix, Reset, document) histories, and an explicit-state BFS de-duplicated on the object's private state",
   "Every call tree of <=15 (thorough 18) Outputter calls, every scalar/key alphabet substitution into trees of <=5 calls, all 256 one-byte and 65 536 two-byte strings as value and field name, boundary numbers, every (prefix of A, Reset, B) history for A,B<=5 calls, and a BFS over call histories keyed on the real private state (stack, inField, depth, last two output bytes) to nesting depth 3 (thorough 5) with the frontier exhausted; each output is parsed by encoding/json's tokenizer and compared with the call tree.",
   "Trusted: encoding/json as the JSON oracle. Nesting deeper than the bound and alphabets beyond those listed are outside the bound.", "§7 C15"),
 "C07": ("E3-sched(+E5 race)", "stateless model checking of the real code: controlled cooperative scheduler owning every sync/atomic operation, depth-first enumeration of interleavings with iterative preemption bounding followed by a sleep-set (partial-order reduced) enumeration of all interleavings, sequential-specification oracle",
   "85 scenarios of 2-3 real goroutines (concurrent first use of recursive, mutually recursive, pointer-/map-recursive and nested types; shared intern tables; pooled map-key scratch with the pool's reuse-vs-fresh answer as an explored environment choice; failing builds) run on a fresh Plenc per execution. Every schedule with <=3 preemptions is executed (3 threads: <=2 quick / 3 thorough), then every interleaving up to commutation of independent operations (sleep sets over per-object / per-key / read-write operation signatures) - completed for all 80 two-thread scenarios in the quick tier, under an execution cap for three threads (the evidence names the bound completed per scenario) - and each operation's result is compared with the same operation alone on a fresh instance, plus a post-quiescence probe of the instance. Failing schedules are replayed twice and must reproduce identically.",
   "Trusted: the scheduler (sequentially consistent, switches only at sync / sync/atomic operations, instrumented via a generated import overlay of the current sources); unsynchronised accesses are looked for by the separate free-running -race pass, which is complementary and not exhaustive. Registration concurrent with use is not claimed.", "§7 C07"),
 "C10": ("E2-bfs(+E3 env)", "explicit-state exploration of call histories on one real instance and one target variable, with sync.Pool's answer enumerated as an environment choice by the scheduler shim; reference merge model as oracle",
   "For 28 re-use-sensitive types (x2 configurations): every history (prior target value p0; 2 or 3 Marshal+Unmarshal-into-the-same-target calls, each followed by an Unmarshal into a fresh variable) over the boundary values, priors as built, with aliased pointers and with slices truncated so that stale elements sit in the spare capacity, every sync.Pool reuse|fresh answer sequence. After every call the target must be one of ref.Merge(prior, v) and the fresh decode must equal a virgin instance's decode (differential), and Marshal inside the history must still produce the reference bytes.",
   "Trusted: ref.Merge (weakest reading where the statement is silent), the Pool shim (LIFO reuse or New). Depth 3 in the quick tier uses the reduced value set.", "§7 C10"),
 "C19": ("E2-bfs+E3-sched(+E5 race)", "explicit-state BFS over decode histories keyed on the real intern tables' contents, plus scheduler-controlled interleaving enumeration of concurrent decoders sharing the tables",
   "BFS: every history of <=4 (thorough 6) decode operations over the string alphabet (new, repeated, empty, shared prefix, binary, 128-byte; string and null.String fields; two independent tables per type; each step decoded into a fresh variable and into a long-lived re-used destination), states de-duplicated on the tables' contents read reflectively from the real codec; in every state the interned result equals the plain twin's, all strings returned so far are unchanged after the caller's buffer is overwritten, no table entry or result lies inside a caller buffer (address ranges), earlier table snapshots are untouched (copy-on-write) and the encoding equals the plain one. Schedules: 12 scenarios of 2-3 goroutines through shared tables, all schedules within the completed preemption bound, sequential-specification oracle.",
   "Trusted: the reflective table locator (layout change => machinery error), the scheduler as for C07. The -race pass is complementary.", "§7 C19"),
 "C04": ("E4-dev", "exhaustive enumeration of hostile decoder inputs: all short byte strings, all single deviations (truncation, byte substitution, token replacement/insertion) from every valid corpus encoding, all short token strings; each decoded by the real Unmarshal / Codec.Read / Descriptor.Read under three memory presentations",
   "26 targets (an every-encoding struct in default and proto configuration, each container type at top level, recursive hand-written types, the JSON-any codecs). Every byte string of length <=2 (thorough: +third byte from the boundary alphabet), every truncation / alphabet substitution / boundary-varint token replacement or insertion of every corpus encoding (thorough: two deviations on short encodings), every token string of <=3 (4) tokens. Oracles per input: no panic or fatal error (worker death is attributed to the input), termination (watchdog), identical result for capacity==length and two differently filled spare capacities (no read outside the input), allocation bound confirmed with an exact measurement, Read's n within [0,len].",
   "Trusted: the Go runtime's bounds checks and allocation statistics. Honest descriptors only. Inputs further than 2 deviations from a valid encoding and raw strings longer than 3 bytes are outside the bound.", "§7 C04"),
 "C06": ("E2-bfs", "explicit-state exploration of Marshal call histories (buffer kind x value x calling convention) on one real instance with the reference encoder as oracle",
   "Every history of <=3 (thorough 4) Marshal calls over 20 types chosen to hit every interface representation (pointer-shaped structs, maps, pointers, scalars, slices, ordinary structs), 7 buffer kinds (nil, empty, spare capacity, exact-capacity prefix, patterned spare prefix, previous result, previous result[:0]), by value and by pointer, values always including ones that encode to nothing. Each call: nil error, buffer prefix preserved byte for byte, appended bytes match the reference encoding tree.",
   "Trusted: ref.EncTop. From the third call on only the buffer-re-using kinds are varied.", "§7 C06"),
 "C09": ("E1-enum", "bounded exhaustive enumeration of presence-carrying positions x pointee types x presence states, reference expectation and Descriptor flag model as oracle",
   "Every pointee type (all leaves, structs, slices) in every presence position (pointer field, null.X field, pointer/null map value under zero and non-zero keys, **X, pointers inside pointed-to structs, map[K]*struct, slice of structs with pointer and null fields, and the intern-tagged string / null.String forms of each) between two siblings, values {absent, present zero, present non-zero, present-but-encodes-to-nothing}: presence and pointee after the round trip equal the reference; all-absent values encode to zero bytes; ExplicitPresence is set for exactly the pointer / null typed struct fields and map keys/values.",
   "Trusted: ref.Expect. Slice-element descriptor flags are not judged.", "§7 C09"),
 "C11": ("E1-enum", "bounded exhaustive enumeration with address-range (aliasing) analysis of the live values and buffers",
   "Same universe as C01, Marshal into nil / empty / one-byte-short / roomy destinations: after Marshal the value and buffer prefix are unchanged and the output shares no memory with anything reachable from the value; after Unmarshal from a buffer with spare capacity the input is unchanged, no string / slice backing array / pointee reachable from the decoded value intersects input[0:cap], and after the input is overwritten and re-used for another Marshal the decoded value (and a second decode through the same instance) is unchanged; an instance-state sequence (decode from A, overwrite A, decode from B, re-check everything decoded so far) covers state kept inside codecs.",
   "Trusted: reflect/unsafe address arithmetic in the harness. Map bucket memory is inspected through its keys and values.", "§7 C11"),
 "C12": ("E1-enum", "bounded exhaustive enumeration over the four configurations with an independent schema-directed protobuf framing reader and the reference encoder",
   "Every struct type of the universe with every map field tagged proto, all four configurations, boundary values: only wire types 0,1,2,5 and exact lengths under both switches; bytes match the reference encoding of each configuration; flipping a switch leaves types it does not concern byte-identical; round trip per configuration; a default-mode instance decodes the repeated-field form (arrays-only configuration, and both switches for time-free types) to the same value.",
   "Trusted: ref.Walk / ref.WireTypes (no protobuf library). Types with nested presence (**T, *null.X) are left to C01/C09.", "§7 C12"),
 "C03": ("E1-enum", "bounded exhaustive enumeration of schema pairs (S, S') x values on the real decoder with the reference merge model as oracle",
   "S = every tuple of <=3 (thorough 4) fields over 12 skip-relevant encodings + sentinel; S' = every removal subset x every permutation with fresh names x optional added field; values = full product of {zero, nz1, nz2}, each also with the trailing sentinel omitted so that a removed field can end its message; top level, nested as a field and as slice elements; targets pre-populated with sentinels. No error, shared indexes as decoding into S, absent/added fields keep their prior value, the field after skipped data is intact.",
   "Trusted: ref.Merge. Field kinds are one representative per wire class.", "§7 C03"),
 "C08": ("E1-enum", "bounded exhaustive enumeration of type definitions (kinds x nesting positions x tag strings x duplicate arrangements) against the reference acceptance model, with a behavioural battery and a registry-poisoning probe",
   "Every supported representative and every unsupported kind in 19 nesting positions x 4 configurations, the full 24-tag x 15-kind matrix, every nesting shape x every tag option, duplicate-index arrangements, skipped/unexported/blank fields, failing recursive definitions in every probe order: no panic; documented-invalid => non-empty error; accepted => round-trip and Size/Append battery on zero and non-zero values; after any rejection every independently valid sub-type still works on the same instance and no rejected sub-type is left usable; unexported and '-' fields are neither encoded nor written.",
   "Trusted: ref.Accept. Indexes above 65536 are outside the alphabet (dense fieldsByIndex).", "§7 C08"),
 "C14": ("E1-enum", "bounded exhaustive enumeration of type definitions compared attribute by attribute with an independent descriptor model",
   "Every type-in-position of the universe x configurations, every field of every field-position struct under each of the five json tag forms, all tag options, null and hand-written named types: the real Codec.Descriptor() equals ref.Descriptor on Index, Name, Type, struct TypeName, ExplicitPresence, LogicalType, element order and count, recursively. The recursive family runs in crash-attributed cases (Descriptor() must return).",
   "Trusted: ref.Descriptor. The synthesised TypeName of map-entry pseudo structs is not compared.", "§7 C14"),
 "C13": ("E1-enum", "bounded exhaustive enumeration of (type, value) with the Descriptor taken three ways, the real Descriptor.Read + JSONOutput, and an independent JSON-model reference compared token by token",
   "Every type-in-position of the universe (default configuration) x boundary values (finite floats): Descriptor.Read over Marshal(v) succeeds, the output is valid JSON whose tokenised content equals ref.JSONModel(T, v) (objects with omitted fields absent, arrays element for element incl. empty elements, string-keyed maps as objects with every member, other maps as key/value lists, pointers as targets, RFC 3339 times, exact numbers), and the Descriptor restored through plenc and through encoding/json gives byte-identical output.",
   "Trusted: encoding/json tokenizer, ref.JSONModel. Default configuration only (a Descriptor does not record the ProtoCompatible switches); negative flat ints narrower than 64 bits excluded (documented caveat).", "§7 C13"),
 "C16": ("E1-enum", "bounded exhaustive enumeration of JSON-model trees in four positions on the real JSON-any codecs, with encoding/json as the rendering oracle",
   "Every depth-1 array / string-keyed map of width <=2 (thorough 3) over 20 leaves (nil, bools, boundary ints, floats, strings, json.Number, empty and nil containers) and keys {\"\", a, b}; depth-2 containers over a reduced element set plus every depth-1 container; depth-3 wrappers; each as top-level map, top-level array, struct field with a sibling, and as an unknown field skipped by a struct lacking it: round trip equal modulo nil/empty containers, sibling intact, and Descriptor + JSON outputter over the same bytes equal to encoding/json's rendering.",
   "Trusted: encoding/json. Only the dynamic types the statement lists.", "§7 C16"),
 "C17": ("E2-bfs", "explicit-state BFS over configuration histories (instances, registrations, early uses) with a registration-map model predicting every probe's bytes",
   "BFS to depth 5 (thorough 6) over operations {create instance with default / both switches, RegisterCodec / RegisterCodecWithTag(flat|custom) of three marker codecs for the named type and for its underlying basic type on any instance, Use(instance)}, states de-duplicated on the model's registration sets with the frontier exhausted; in every state every instance, the package default and the package-level functions run 11 probes placing the named type as value, field, *T, []T, map key, map value and under tags, in declared and in reverse order on two realisations of the state: bytes must equal the prediction for that instance alone. Registrations on the package default use a distinct named type per scenario.",
   "Trusted: the registration-map model. Registration precedes first use on the same instance (documented API order).", "§7 C17"),
 "C20": ("E1-enum", "bounded exhaustive enumeration of generated Go source files x flag combinations run through the real plenctag binary, with go/parser, go/format, go/types and plenc itself as oracles",
   "Files from a grammar (1-2 fields, thorough 3; six field shapes x three types x ten existing-tag states; package-level, generic, function-local and expression struct types) x the 16 flag combinations, 47k runs quick: no crash; on error the file is untouched; otherwise AST-with-tags-erased unchanged, prior tags kept, new indexes above every prior one and distinct per name, exclusions dashed, unexported fields untouched by default, gofmt-stable, type-checks, plenc builds a codec for every tagged struct, second run is a fixed point.",
   "Trusted: go/parser, go/format, go/types. The binary is rebuilt from /repo/cmd/plenctag by bin/check.", "§7 C20"),
}
NOT_YET = "check not built yet (in progress); see DESIGN.md §7 for the planned model-checking design"

def main():
    props = [json.loads(l)["id"] for l in open(f"{V}/properties.jsonl")]
    checks, na = [], []
    for pid in props:
        if pid in CHECKS:
            eng, tech, text, note, ref = CHECKS[pid]
            checks.append({
                "property_id": pid,
                "quick_cmd": f"bin/check {pid} quick",
                "thorough_cmd": f"bin/check {pid} thorough",
                "evidence_file": f"/verif/evidence/{pid}.json",
                "replay_cmd_template": "bin/check --replay {path}",
                "engine": eng,
                "level_claimed": {"category": "model_checking", "text": text, "design_ref": ref},
                "level_note": note,
                "technique": tech,
            })
        else:
            na.append({"property_id": pid, "reason": NOT_YET})
    m = {
        "version": 1,
        "setup_cmd": "sh /verif/bin/setup",
        "hooks": {
            "guard": "verif",
            "enable": "no source hooks in /repo: bin/check generates an import-rewriting overlay (sync -> verif/vsync, sync/atomic -> verif/vatomic) from /repo's current files and builds with `go build -tags verif -overlay /verif/.build/overlay.json`",
            "baseline_off_cmd": BASE_OFF,
            "source_commits": [],
            "add_only": True,
        },
        "engines": [
            {"name": "E3-sched", "path": "harness/sched + harness/vsync + harness/vatomic + harness/cmd/ovl", "serves_properties": ["C07", "C19", "C10"], "kind_free_text": "cooperative scheduler + preemption-bounded DFS over the real code; sync and sync/atomic are replaced by shims through a generated go build -overlay"},
            {"name": "E4-dev", "path": "harness/props/c04.go, c18.go", "serves_properties": ["C04", "C18"], "kind_free_text": "deviation-bounded exhaustive hostile-input enumeration with crash/hang attribution per input"},
            {"name": "E2-bfs", "path": "harness/props/c06.go, c10.go, c15.go, c19.go", "serves_properties": ["C06", "C10", "C15", "C19"], "kind_free_text": "explicit-state search over operation histories of real objects (successor = replay on a fresh instance + one operation), de-duplicated on the real private state where a state key exists"},
            {"name": "E1-enum", "path": "harness/mc + harness/ref + harness/props", "serves_properties": [p for p in CHECKS if CHECKS[p][0] == "E1-enum"], "kind_free_text": "bounded exhaustive case enumeration on the real code vs. reference model, sharded over worker processes with crash/hang attribution"},
        ],
        "checks": checks,
        "not_applicable": na,
        "notes": "All checks: exit 0 held / exit 1 + VIOLATION line / exit 2 machinery error (never a violation). Known findings: /verif/known_findings.json. Every check rebuilds the harness against /repo's working tree.",
    }
    json.dump(m, open(f"{V}/MANIFEST.json", "w"), indent=1)
    print("checks:", len(checks), "not_applicable:", len(na))

main()
