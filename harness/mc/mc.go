// Package mc is the shared machinery of the checks: sharded worker processes
// with crash and hang attribution, measured coverage counters, the findings
// ledger, replay files and evidence files.
package mc

import (
	"bufio"
	"bytes"
	"encoding/binary"
	"encoding/json"
	"fmt"
	"hash/fnv"
	"os"
	"os/exec"
	"path/filepath"
	"regexp"
	"runtime"
	"runtime/debug"
	"sort"
	"strconv"
	"strings"
	"sync"
	"sync/atomic"
	"syscall"
	"time"
)

const cellSize = 1 << 16

// VerifDir is the root of the verification tree (evidence, ledger, replays, build
// scratch); bin/check exports VERIF_DIR so that a snapshot of the tree works in place.
var VerifDir = func() string {
	if d := os.Getenv("VERIF_DIR"); d != "" {
		return d
	}
	return "/verif"
}()

// OutDir is where evidence, replays and run scratch go (default: VerifDir). The seeded-change
// audit points it at a scratch directory so that runs against a deliberately broken copy of
// the repository never overwrite the evidence of the real tree.
var OutDir = func() string {
	if d := os.Getenv("VERIF_OUT"); d != "" {
		return d
	}
	return VerifDir
}()

// RepoDir is the plenc tree under verification (default /repo).
var RepoDir = func() string {
	if d := os.Getenv("VERIF_REPO"); d != "" {
		return d
	}
	return "/repo"
}()

// Prop describes one property check.
type Prop struct {
	ID          string
	Level       string // evidence level, e.g. model_checking
	Rule        string
	Assumptions []string
	// Work runs inside a worker process and explores this worker's shard.
	Work func(c *Ctx)
	// Workers overrides the number of worker processes (0 = NumCPU).
	Workers func(tier string) int
	// Post runs in the driver once all workers finished; it may add machinery
	// errors (returned strings) e.g. when a coverage dimension stayed empty.
	Post func(a *Agg) []string
	// Pre runs in the driver before any worker starts (self-checks of the model).
	Pre func(tier string) error
	// Aux runs in the driver after the workers: complementary, non-deciding passes
	// (the free-running race-detector pass). Its violations join the others.
	Aux func(tier string) (viols []*VRec, info map[string]any, errs []string)
	// Sub lets the binary serve extra sub-commands (e.g. -racepass).
	Sub map[string]func(args []string) int
}

// Ctx is the worker-side context.
type Ctx struct {
	Prop, Tier string
	W, N       int
	Seed       int64
	Deadline   time.Time
	Only       int64 // when >= 0 run only the case with this sequence number (replay)

	seq      int64
	sub      int64
	skipSub  map[[2]int64]bool
	bulkNT   int64
	curDesc  string
	skip     map[int64]bool
	cell     []byte
	cur      atomic.Int64
	curStart atomic.Int64
	curCPU   atomic.Int64 // process CPU time (ns) at the last Begin / Heartbeat
	allowCPU atomic.Int64 // extra CPU time (ns) the current case announced it needs (Allow); reset by Begin
	res      result
	all      map[uint64]struct{}
	nt       map[uint64]struct{}
	viols    map[string]*VRec
	expired  bool
	out      *bufio.Writer
}

type result struct {
	Evals       int64            `json:"evals"`
	States      int64            `json:"states"`
	Ops         int64            `json:"ops"`
	NonTrivial  int64            `json:"nontrivial"`
	Outcomes    map[string]int64 `json:"outcomes"`
	Dims        map[string]int64 `json:"dims"`
	Counters    map[string]int64 `json:"counters"`
	Samples     []any            `json:"samples"`
	Expired     bool             `json:"expired"`
	Notes       []string         `json:"notes"`
	Viols       []*VRec          `json:"viols"`
	CasesSeen   int64            `json:"cases_seen"`
	MachineErrs []string         `json:"machine_errs"`
}

// VRec is an aggregated violation record (one per signature per worker).
type VRec struct {
	Sig    string `json:"sig"`
	Count  int64  `json:"count"`
	Seq    int64  `json:"seq"`
	W      int    `json:"w"`
	N      int    `json:"n"`
	Desc   string `json:"desc"`
	Detail string `json:"detail"`
}

// Owns reports whether this worker owns shard key k.
func (c *Ctx) Owns(k int) bool { return k%c.N == c.W }

// Expired reports whether the internal deadline has passed (checked coarsely).
func (c *Ctx) Expired() bool {
	if c.expired {
		return true
	}
	if time.Now().After(c.Deadline) {
		c.expired = true
		c.res.Expired = true
	}
	return c.expired
}

// Begin announces the next case. It returns false when the case must not be run
// (it is on the skip list after a crash, or a replay selects another case).
func (c *Ctx) Begin(desc string) bool {
	seq := c.seq
	c.seq++
	c.res.CasesSeen++
	if c.Only >= 0 && seq != c.Only {
		return false
	}
	if c.skip[seq] {
		return false
	}
	if c.cell != nil {
		n := len(desc)
		if n > cellSize-4200 {
			n = cellSize - 4200
		}
		binary.LittleEndian.PutUint64(c.cell[0:], uint64(seq))
		binary.LittleEndian.PutUint64(c.cell[8:], 0)
		binary.LittleEndian.PutUint32(c.cell[16:], uint32(n))
		copy(c.cell[20:], desc[:n])
	}
	c.sub = 0
	c.cur.Store(seq)
	c.allowCPU.Store(0)
	c.curStart.Store(time.Now().UnixNano())
	c.curCPU.Store(cpuNanos())
	c.res.Evals++
	c.curDesc = desc
	c.all[Hash(desc)] = struct{}{}
	return true
}

// SubBegin announces one input inside the current case (block). A worker death is
// then attributed to that input, and only that input is skipped on the re-run.
func (c *Ctx) SubBegin(input []byte) bool {
	c.sub++
	if c.skipSub[[2]int64{c.cur.Load(), c.sub}] {
		return false
	}
	if c.cell != nil {
		n := len(input)
		if n > 4096 {
			n = 4096
		}
		binary.LittleEndian.PutUint64(c.cell[8:], uint64(c.sub))
		binary.LittleEndian.PutUint32(c.cell[cellSize-4100:], uint32(n))
		copy(c.cell[cellSize-4096:], input[:n])
	}
	return true
}

// Allow announces that the case just begun legitimately needs up to d of CPU time in ONE library
// call (no progress can be reported from inside it), e.g. a single decode whose cost the library
// makes quadratic. The hang watchdog grants that much on top of its threshold for this case only.
func (c *Ctx) Allow(d time.Duration) { c.allowCPU.Store(int64(d)) }

// Heartbeat tells the hang watchdog that the current case is making progress
// (cases that are whole explorations run for much longer than one input).
func (c *Ctx) Heartbeat() {
	c.curStart.Store(time.Now().UnixNano())
	c.curCPU.Store(cpuNanos())
}

// cpuNanos is the CPU time this process has consumed (user + system).
func cpuNanos() int64 {
	var ru syscall.Rusage
	if syscall.Getrusage(syscall.RUSAGE_SELF, &ru) != nil {
		return 0
	}
	return ru.Utime.Nano() + ru.Stime.Nano()
}

// runDelayNanos is the time this process's threads have spent runnable but waiting for a CPU
// (second field of /proc/self/task/*/schedstat). A blocked process does not accumulate any; a
// process starved by an overloaded machine does.
func runDelayNanos() int64 {
	var sum int64
	tasks, _ := filepath.Glob("/proc/self/task/*/schedstat")
	for _, t := range tasks {
		b, err := os.ReadFile(t)
		if err != nil {
			continue
		}
		f := strings.Fields(string(b))
		if len(f) >= 2 {
			if v, err := strconv.ParseInt(f[1], 10, 64); err == nil {
				sum += v
			}
		}
	}
	return sum
}

// Hash returns the FNV-1a hash of s.
func Hash(s string) uint64 {
	h := fnv.New64a()
	h.Write([]byte(s))
	return h.Sum64()
}

// NonTrivial records that the current case is non-trivial by the property's rule.
func (c *Ctx) NonTrivial() { c.NonTrivialKey(c.curDesc) }

// NonTrivialKey records a distinct non-trivial case under an explicit key.
func (c *Ctx) NonTrivialKey(key string) {
	h := Hash(key)
	if _, ok := c.nt[h]; !ok {
		c.nt[h] = struct{}{}
	}
}

// AddNonTrivial adds n cases that are distinct and non-trivial by construction
// (bulk sweeps over a numeric range, where a hash set would not fit in memory).
func (c *Ctx) AddNonTrivial(n int64) { c.bulkNT += n }

// AddEvals adjusts the evaluation count for drivers that run many inputs per Begin.
func (c *Ctx) AddEvals(n int64) { c.res.Evals += n }

// Ops counts calls into the real code (the transitions of the explored space).
func (c *Ctx) Ops(n int)                  { c.res.Ops += int64(n) }
func (c *Ctx) Outcome(class string)       { c.res.Outcomes[class]++ }
func (c *Ctx) Dim(name string)            { c.res.Dims[name]++ }
func (c *Ctx) Count(name string, n int64) { c.res.Counters[name] += n }

// Max records a high-water mark; counters whose name starts with "max_" are merged across
// workers by maximum instead of by sum.
func (c *Ctx) Max(name string, n int64) {
	if n > c.res.Counters[name] {
		c.res.Counters[name] = n
	}
}
func (c *Ctx) Note(s string) { c.res.Notes = append(c.res.Notes, s) }
func (c *Ctx) MachineErr(s string) {
	if len(c.res.MachineErrs) < 20 {
		c.res.MachineErrs = append(c.res.MachineErrs, s)
	}
}

// Sample keeps a few written-out cases for the evidence file.
func (c *Ctx) Sample(x any) {
	if len(c.res.Samples) < 4 {
		c.res.Samples = append(c.res.Samples, x)
	}
}

// WantSample reports whether another sample is wanted (avoid building them needlessly).
func (c *Ctx) WantSample() bool { return len(c.res.Samples) < 4 && c.res.Evals%97 == 1 }

// Violation records a violation of the property for the current case.
func (c *Ctx) Violation(sig, detail string) {
	v := c.viols[sig]
	if v == nil {
		if len(c.viols) >= 2000 {
			sig = "(overflow: more than 2000 distinct signatures)"
			if v = c.viols[sig]; v != nil {
				v.Count++
				return
			}
		}
		v = &VRec{Sig: sig, Seq: c.cur.Load(), W: c.W, N: c.N, Desc: c.curDesc, Detail: trunc(detail, 1500)}
		c.viols[sig] = v
		if c.Only >= 0 {
			fmt.Fprintf(os.Stderr, "replay: VIOLATION sig=%s\n  case=%s\n  %s\n", sig, c.curDesc, detail)
		}
	}
	v.Count++
}

func trunc(s string, n int) string {
	if len(s) > n {
		return s[:n] + "…"
	}
	return s
}

// Guard runs f, converting a panic into a violation with signature
// "panic:<class>@<innermost plenc function>" + sigSuffix.
func (c *Ctx) Guard(sigPrefix string, f func()) (panicked bool) {
	defer func() {
		if r := recover(); r != nil {
			panicked = true
			st := debug.Stack()
			detail := fmt.Sprint(r)
			if fr := PlencFrame(st); strings.HasPrefix(fr, "?") {
				// no plenc frame on the stack: show where it happened (harness code or the runtime)
				detail += "\n" + shortStack(st)
			}
			c.Violation(sigPrefix+"panic:"+PanicClass(r)+"@"+PlencFrame(st), detail)
		}
	}()
	f()
	return false
}

// shortStack keeps the function lines of the first frames below the panic.
func shortStack(st []byte) string {
	var out []string
	seenPanic := false
	for _, l := range strings.Split(string(st), "\n") {
		if strings.HasPrefix(l, "panic(") {
			seenPanic = true
			continue
		}
		if seenPanic && strings.HasPrefix(l, "\t") {
			out = append(out, strings.TrimSpace(l))
			if len(out) == 6 {
				break
			}
		}
	}
	return strings.Join(out, " <- ")
}

var sigKeyRe = regexp.MustCompile(`"sigkey":"([^"]*)"`)
var numRe = regexp.MustCompile(`-?\d+`)
var hexRe = regexp.MustCompile(`0x[0-9a-f]+`)

// PanicClass abstracts a panic value into a stable class string.
func PanicClass(r any) string {
	s := fmt.Sprint(r)
	if e, ok := r.(error); ok {
		s = e.Error()
	}
	s = hexRe.ReplaceAllString(s, "H")
	s = numRe.ReplaceAllString(s, "N")
	if len(s) > 80 {
		s = s[:80]
	}
	return s
}

var frameRe = regexp.MustCompile(`(?m)^(github\.com/philpearl/plenc[^\s(]*)`)
var instRe = regexp.MustCompile(`\[[^\]]*\]`)

// PlencFrame extracts the innermost function of plenc from a stack trace.
func PlencFrame(stack []byte) string {
	m := frameRe.FindSubmatch(stack)
	if m == nil {
		return "?"
	}
	f := string(m[1])
	f = strings.TrimPrefix(f, "github.com/philpearl/plenc")
	f = strings.TrimPrefix(f, "/")
	return instRe.ReplaceAllString(f, "")
}

func (c *Ctx) flush() {
	c.res.NonTrivial = int64(len(c.nt)) + c.bulkNT
	c.res.States = int64(len(c.all))
	for _, v := range c.viols {
		c.res.Viols = append(c.res.Viols, v)
	}
	sort.Slice(c.res.Viols, func(i, j int) bool { return c.res.Viols[i].Seq < c.res.Viols[j].Seq })
	b, _ := json.Marshal(&c.res)
	c.out.WriteString("RESULT ")
	c.out.Write(b)
	c.out.WriteString("\n")
	c.out.Flush()
}

// ---------------------------------------------------------------------------

// Agg is the driver-side aggregate over all workers.
type Agg struct {
	result
	Tier       string
	Aux        map[string]any
	Violations []*VRec
	Crashes    int
}

func tierBudget(tier string) time.Duration {
	if s := os.Getenv("VERIF_BUDGET_S"); s != "" {
		if n, err := strconv.Atoi(s); err == nil {
			return time.Duration(n) * time.Second
		}
	}
	if tier == "thorough" {
		return 14 * time.Minute
	}
	return 150 * time.Second
}

// Main dispatches: `<bin> <ID> <tier>`, `<bin> -worker ...`, `<bin> -replay file`.
func Main(props map[string]*Prop) {
	args := os.Args[1:]
	if len(args) >= 1 && args[0] == "-worker" {
		workerMain(props, args[1:])
		return
	}
	if len(args) >= 2 && strings.HasPrefix(args[0], "-sub:") {
		for _, p := range props {
			if f := p.Sub[args[0][5:]]; f != nil {
				os.Exit(f(args[1:]))
			}
		}
		fmt.Fprintln(os.Stderr, "unknown sub-command", args[0])
		os.Exit(2)
	}
	if len(args) >= 2 && args[0] == "-replay" {
		os.Exit(replayMain(props, args[1]))
	}
	if len(args) < 1 {
		fmt.Fprintln(os.Stderr, "usage: verifh <ID> [quick|thorough] | -replay <file>")
		os.Exit(2)
	}
	tier := "quick"
	if len(args) >= 2 {
		tier = args[1]
	} else if t := os.Getenv("VERIF_TIER"); t != "" {
		tier = t
	}
	p := props[args[0]]
	if p == nil {
		fmt.Fprintln(os.Stderr, "unknown property", args[0])
		os.Exit(2)
	}
	os.Exit(drive(p, tier))
}

func seed() int64 {
	n, _ := strconv.ParseInt(os.Getenv("VERIF_SEED"), 10, 64)
	return n
}

func workerMain(props map[string]*Prop, a []string) {
	// -worker ID tier w n cellpath deadlineUnix only skiplist
	p := props[a[0]]
	w, _ := strconv.Atoi(a[2])
	n, _ := strconv.Atoi(a[3])
	dl, _ := strconv.ParseInt(a[5], 10, 64)
	only, _ := strconv.ParseInt(a[6], 10, 64)
	c := &Ctx{Prop: a[0], Tier: a[1], W: w, N: n, Seed: seed(), Deadline: time.Unix(dl, 0), Only: only,
		skip: map[int64]bool{}, nt: map[uint64]struct{}{}, all: map[uint64]struct{}{}, viols: map[string]*VRec{}, out: bufio.NewWriter(os.Stdout)}
	c.res.Outcomes, c.res.Dims, c.res.Counters = map[string]int64{}, map[string]int64{}, map[string]int64{}
	c.skipSub = map[[2]int64]bool{}
	if len(a) > 7 && a[7] != "" {
		for _, s := range strings.Split(a[7], ",") {
			if i := strings.IndexByte(s, '.'); i >= 0 {
				k, _ := strconv.ParseInt(s[:i], 10, 64)
				j, _ := strconv.ParseInt(s[i+1:], 10, 64)
				c.skipSub[[2]int64{k, j}] = true
				continue
			}
			k, _ := strconv.ParseInt(s, 10, 64)
			c.skip[k] = true
		}
	}
	if a[4] != "" {
		f, err := os.OpenFile(a[4], os.O_RDWR, 0)
		if err == nil {
			c.cell, _ = syscall.Mmap(int(f.Fd()), 0, cellSize, syscall.PROT_READ|syscall.PROT_WRITE, syscall.MAP_SHARED)
			f.Close()
		}
	}
	if c.cell != nil {
		binary.LittleEndian.PutUint64(c.cell[0:], ^uint64(0))
	}
	c.cur.Store(-1)
	// memory: cap the address space so absurd allocations fail fast in the worker
	var lim syscall.Rlimit
	lim.Cur, lim.Max = 12<<30, 12<<30
	syscall.Setrlimit(syscall.RLIMIT_AS, &lim)
	debug.SetMaxStack(256 << 20)
	// watchdog: a case that does not finish is a hang (DESIGN §2 rule 4). The measure is the CPU
	// time the worker has burnt since the case began (or last reported progress), not the wall
	// clock: on a loaded machine a healthy case may wait a long time for a core, and must not
	// be called a hang for that. A case that is blocked without using any CPU is given ten
	// times as long on the wall clock.
	hangAfter := 30 * time.Second
	if s := os.Getenv("VERIF_HANG_S"); s != "" {
		if k, err := strconv.Atoi(s); err == nil {
			hangAfter = time.Duration(k) * time.Second
		}
	}
	go func() {
		// (this loop must not allocate while cases are running normally: C04 measures allocation)
		baseCur, baseSt, base, baseAt := int64(-2), int64(0), int64(0), time.Time{}
		for {
			time.Sleep(500 * time.Millisecond)
			cur, st := c.cur.Load(), c.curStart.Load()
			burnt := time.Duration(cpuNanos() - c.curCPU.Load())
			waited := time.Since(time.Unix(0, st))
			// blocked = a long wait with no CPU used AND none wanted: threads that are runnable but not
			// scheduled (an overloaded machine) are starved, not hung. Half-way through the wait the
			// run-queue delay of this process is sampled; a blocked process gains next to none afterwards.
			blocked := false
			if cur >= 0 && st > 0 && waited > 5*hangAfter && burnt < time.Second {
				if cur != baseCur || st != baseSt {
					baseCur, baseSt, base, baseAt = cur, st, runDelayNanos(), time.Now()
				}
				if waited > 10*hangAfter && time.Since(baseAt) > 4*hangAfter {
					blocked = time.Duration(runDelayNanos()-base) < 5*time.Second || waited > 100*hangAfter
				}
			}
			if cur >= 0 && st > 0 && (burnt > hangAfter+time.Duration(c.allowCPU.Load()) || blocked) {
				buf := make([]byte, 1<<20)
				s1 := PlencFrame(buf[:runtime.Stack(buf, true)])
				time.Sleep(time.Second)
				if c.cur.Load() != cur {
					continue
				}
				s2 := PlencFrame(buf[:runtime.Stack(buf, true)])
				fmt.Fprintf(os.Stderr, "HANG seq=%d in %s / %s\n", cur, s1, s2)
				os.Exit(97)
			}
		}
	}()
	p.Work(c)
	c.cur.Store(-1)
	c.flush()
}

// totalDeaths counts crashed and hung cases over all workers of this run.
var totalDeaths atomic.Int64

type workerRun struct {
	res     *result
	crashes []*VRec
	err     string
}

func runWorker(self string, p *Prop, tier string, w, n int, deadline time.Time, only int64) workerRun {
	var wr workerRun
	dir := filepath.Join(OutDir, ".build", "run")
	os.MkdirAll(dir, 0o755)
	cellPath := filepath.Join(dir, fmt.Sprintf("%s.%d.cell", p.ID, w))
	var skips []string
	for attempt := 0; ; attempt++ {
		os.WriteFile(cellPath, make([]byte, cellSize), 0o644)
		cmd := exec.Command(self, "-worker", p.ID, tier, strconv.Itoa(w), strconv.Itoa(n), cellPath,
			strconv.FormatInt(deadline.Unix(), 10), strconv.FormatInt(only, 10), strings.Join(skips, ","))
		var stdout, stderr bytes.Buffer
		cmd.Stdout, cmd.Stderr = &stdout, &tailWriter{max: 1 << 16}
		stderrTail := cmd.Stderr.(*tailWriter)
		_ = stderr
		err := cmd.Run()
		for _, line := range strings.Split(stdout.String(), "\n") {
			if strings.HasPrefix(line, "RESULT ") {
				var r result
				if e := json.Unmarshal([]byte(line[7:]), &r); e == nil {
					wr.res = &r
				}
			}
		}
		if err == nil && wr.res != nil {
			os.Remove(cellPath)
			if only >= 0 {
				os.Stderr.Write(stderrTail.Bytes())
			}
			return wr
		}
		// the worker died: attribute the death to the case in the progress cell
		cell, _ := os.ReadFile(cellPath)
		seq, sub := int64(-1), int64(0)
		desc := ""
		if len(cell) >= cellSize {
			u := binary.LittleEndian.Uint64(cell[0:])
			if u != ^uint64(0) {
				seq = int64(u)
				sub = int64(binary.LittleEndian.Uint64(cell[8:]))
				l := int(binary.LittleEndian.Uint32(cell[16:]))
				if l <= len(cell)-20 {
					desc = string(cell[20 : 20+l])
				}
				if sub > 0 {
					il := int(binary.LittleEndian.Uint32(cell[cellSize-4100:]))
					if il <= 4096 {
						in := cell[cellSize-4096 : cellSize-4096+il]
						desc = fmt.Sprintf(`{"block":%s,"input_hex":"%x"}`, jsonOrString(desc), in)
					}
				}
			}
		}
		tail := string(stderrTail.Bytes())
		if seq < 0 || attempt >= 60 {
			wr.err = fmt.Sprintf("worker %d died outside any case (err=%v): %s", w, err, trunc(tail, 2000))
			os.Remove(cellPath)
			return wr
		}
		class := "fatal"
		if ee, ok := err.(*exec.ExitError); ok && ee.ExitCode() == 97 {
			class = "hang"
		}
		sigd := fatalSig(class, tail)
		if m := sigKeyRe.FindStringSubmatch(desc); m != nil {
			sigd = m[1] + "|" + sigd
		}
		wr.crashes = append(wr.crashes, &VRec{Sig: sigd, Count: 1, Seq: seq, W: w, N: n, Desc: desc, Detail: trunc(tail, 3000)})
		if sub > 0 {
			skips = append(skips, fmt.Sprintf("%d.%d", seq, sub))
		} else {
			skips = append(skips, strconv.FormatInt(seq, 10))
		}
		wr.res = nil
		if only >= 0 {
			os.Stderr.WriteString(tail)
			os.Remove(cellPath)
			return wr
		}
		// A tree on which very many cases crash or hang must not keep this check running for hours: a
		// restart replays the worker's share from its beginning. Once the tier's budget is spent, or after
		// eight deaths of this worker or 24 of all workers together, the worker's share is reported as not completed (the deaths are violations anyway).
		if time.Now().After(deadline) || len(wr.crashes) >= 8 || totalDeaths.Add(1) >= 24 {
			wr.res = &result{Expired: true, Outcomes: map[string]int64{}, Dims: map[string]int64{}, Counters: map[string]int64{},
				Notes: []string{fmt.Sprintf("worker %d gave up after %d crashed or hung cases", w, len(wr.crashes))}}
			os.Remove(cellPath)
			return wr
		}
	}
}

func fatalSig(class, tail string) string {
	reason := "?"
	if class == "hang" {
		if i := strings.Index(tail, "HANG seq="); i >= 0 {
			line := tail[i:]
			if j := strings.IndexByte(line, '\n'); j >= 0 {
				line = line[:j]
			}
			if k := strings.Index(line, " in "); k >= 0 {
				reason = strings.TrimSpace(line[k+4:])
			}
		}
		return "hang@" + reason
	}
	for _, line := range strings.Split(tail, "\n") {
		if strings.HasPrefix(line, "fatal error:") || strings.HasPrefix(line, "runtime: goroutine stack exceeds") ||
			strings.HasPrefix(line, "panic:") || strings.HasPrefix(line, "unexpected fault address") {
			reason = PanicClass(line)
			break
		}
	}
	return "fatal:" + reason + "@" + PlencFrame([]byte(tail))
}

type tailWriter struct {
	mu  sync.Mutex
	buf []byte
	max int
}

func (t *tailWriter) Write(p []byte) (int, error) {
	t.mu.Lock()
	defer t.mu.Unlock()
	t.buf = append(t.buf, p...)
	if len(t.buf) > 2*t.max {
		// keep head and tail: the head names the fatal error, the tail the last frames
		t.buf = append(t.buf[:t.max:t.max], t.buf[len(t.buf)-t.max:]...)
	}
	return len(p), nil
}
func (t *tailWriter) Bytes() []byte { t.mu.Lock(); defer t.mu.Unlock(); return t.buf }

func drive(p *Prop, tier string) int {
	start := time.Now()
	self, _ := os.Executable()
	if p.Pre != nil {
		if err := p.Pre(tier); err != nil {
			fmt.Fprintf(os.Stderr, "ERROR %s: model self-check failed: %v\n", p.ID, err)
			return 2
		}
	}
	n := runtime.NumCPU()
	if p.Workers != nil {
		if k := p.Workers(tier); k > 0 {
			n = k
		}
	}
	deadline := start.Add(tierBudget(tier))
	runs := make([]workerRun, n)
	var wg sync.WaitGroup
	for w := 0; w < n; w++ {
		wg.Add(1)
		go func(w int) {
			defer wg.Done()
			runs[w] = runWorker(self, p, tier, w, n, deadline, -1)
		}(w)
	}
	wg.Wait()

	agg := &Agg{Tier: tier}
	agg.Outcomes, agg.Dims, agg.Counters = map[string]int64{}, map[string]int64{}, map[string]int64{}
	var machineErrs []string
	bySig := map[string]*VRec{}
	addV := func(v *VRec) {
		if o := bySig[v.Sig]; o != nil {
			o.Count += v.Count
			return
		}
		bySig[v.Sig] = v
		agg.Violations = append(agg.Violations, v)
	}
	for _, r := range runs {
		if r.err != "" {
			machineErrs = append(machineErrs, r.err)
		}
		for _, v := range r.crashes {
			agg.Crashes++
			addV(v)
		}
		if r.res == nil {
			continue
		}
		agg.Evals += r.res.Evals
		agg.NonTrivial += r.res.NonTrivial
		agg.States += r.res.States
		agg.Ops += r.res.Ops
		agg.CasesSeen += r.res.CasesSeen
		agg.Expired = agg.Expired || r.res.Expired
		for k, v := range r.res.Outcomes {
			agg.Outcomes[k] += v
		}
		for k, v := range r.res.Dims {
			agg.Dims[k] += v
		}
		for k, v := range r.res.Counters {
			if strings.HasPrefix(k, "max_") {
				if v > agg.Counters[k] {
					agg.Counters[k] = v
				}
				continue
			}
			agg.Counters[k] += v
		}
		if len(agg.Samples) < 8 {
			agg.Samples = append(agg.Samples, r.res.Samples...)
		}
		agg.Notes = append(agg.Notes, r.res.Notes...)
		machineErrs = append(machineErrs, r.res.MachineErrs...)
		for _, v := range r.res.Viols {
			addV(v)
		}
	}
	if p.Post != nil {
		machineErrs = append(machineErrs, p.Post(agg)...)
	}
	var auxInfo map[string]any
	if p.Aux != nil {
		vs, info, errs := p.Aux(tier)
		auxInfo = info
		machineErrs = append(machineErrs, errs...)
		for _, v := range vs {
			addV(v)
		}
	}
	sort.Slice(agg.Violations, func(i, j int) bool { return agg.Violations[i].Sig < agg.Violations[j].Sig })

	// ledger
	led, lerr := LoadLedger()
	if lerr != nil {
		machineErrs = append(machineErrs, "ledger: "+lerr.Error())
	}
	known := map[string]int64{}
	knownWhat := map[string]string{}
	knownEx = map[string][]map[string]any{}
	var fresh []*VRec
	for _, v := range agg.Violations {
		if e := led.Match(p.ID, v.Sig); e != nil {
			known[e.ID] += v.Count
			knownWhat[e.ID] = e.What
			if len(knownEx[e.ID]) < 3 {
				knownEx[e.ID] = append(knownEx[e.ID], map[string]any{"sig": v.Sig, "cases": v.Count, "case": trunc(v.Desc, 300), "detail": trunc(strings.ReplaceAll(v.Detail, "\n", " | "), 600)})
			}
			if os.Getenv("VERIF_DUMP") != "" {
				fmt.Printf("KNOWNSIG %s\t%s\t%d\t%s\t%s\n", e.ID, v.Sig, v.Count, trunc(v.Desc, 300), trunc(strings.ReplaceAll(v.Detail, "\n", " | "), 600))
			}
			continue
		}
		fresh = append(fresh, v)
	}
	ids := make([]string, 0, len(known))
	for id := range known {
		ids = append(ids, id)
	}
	sort.Strings(ids)
	for _, id := range ids {
		fmt.Printf("KNOWN-FINDING: property=%s %s: %s (%d cases)\n", p.ID, id, knownWhat[id], known[id])
	}
	rdir := filepath.Join(OutDir, "replays", p.ID)
	os.RemoveAll(rdir)
	for i, v := range fresh {
		path := filepath.Join(rdir, fmt.Sprintf("%d.json", i+1))
		if i < 50 {
			os.MkdirAll(rdir, 0o755)
			b, _ := json.MarshalIndent(map[string]any{"property": p.ID, "tier": tier, "w": v.W, "n": v.N, "seq": v.Seq,
				"sig": v.Sig, "case": json.RawMessage(jsonOrString(v.Desc)), "detail": v.Detail, "count": v.Count}, "", " ")
			os.WriteFile(path, b, 0o644)
		}
		if i < 50 {
			fmt.Printf("VIOLATION property=%s replay=%s sig=%q cases=%d\n", p.ID, path, v.Sig, v.Count)
			fmt.Printf("  case: %s\n  detail: %s\n", trunc(v.Desc, 400), trunc(strings.ReplaceAll(v.Detail, "\n", " | "), 400))
		}
	}
	if os.Getenv("VERIF_DUMP") != "" {
		for _, v := range fresh {
			fmt.Printf("SIG %s\t%d\t%s\t%s\n", v.Sig, v.Count, trunc(v.Desc, 300), trunc(strings.ReplaceAll(v.Detail, "\n", " | "), 300))
		}
	}
	if len(fresh) > 50 {
		fmt.Printf("(%d further violation signatures not listed)\n", len(fresh)-50)
	}

	wall := time.Since(start).Seconds()
	agg.Aux = auxInfo
	writeEvidence(p, agg, tier, wall, len(fresh), known, machineErrs)
	fmt.Printf("%s %s: evaluations=%d distinct_nontrivial=%d exhaustive=%v violations=%d known=%d crashes=%d wall=%.1fs\n",
		p.ID, tier, agg.Evals, agg.NonTrivial, !agg.Expired, len(fresh), len(known), agg.Crashes, wall)
	for _, e := range machineErrs {
		fmt.Fprintf(os.Stderr, "ERROR %s: %s\n", p.ID, trunc(e, 1500))
	}
	if len(fresh) > 0 {
		return 1 // a violation was demonstrated, whatever else went wrong
	}
	if len(machineErrs) > 0 {
		return 2
	}
	return 0
}

func jsonOrString(s string) []byte {
	if json.Valid([]byte(s)) {
		return []byte(s)
	}
	b, _ := json.Marshal(s)
	return b
}

// knownEx holds up to three examples per ledgered finding hit by this run (for the evidence file).
var knownEx map[string][]map[string]any

func writeEvidence(p *Prop, a *Agg, tier string, wall float64, nviol int, known map[string]int64, merrs []string) {
	cov := map[string]any{
		"evaluations":         a.Evals,
		"distinct_nontrivial": a.NonTrivial,
		"rule":                p.Rule,
		"samples":             a.Samples,
		"exhaustive":          !a.Expired && len(merrs) == 0,
		"cases_enumerated":    a.CasesSeen,
		"distinct_outcomes":   len(a.Outcomes),
		"outcomes":            topN(a.Outcomes, 40),
		"dimensions":          a.Dims,
		"worker_crashes":      a.Crashes,
	}
	if _, ok := a.Counters["states"]; !ok && a.States > 0 {
		// E1/E4 style runs: a state is one distinct enumerated case, a transition one
		// call into the real code, and every case is an execution of the real code
		// compared with the reference model's prediction.
		cov["states"] = a.States
		cov["transitions"] = a.Ops
		if a.Ops == 0 {
			cov["transitions"] = a.Evals
		}
		cov["traces_validated_against_impl"] = a.Evals
	}
	for k, v := range a.Counters {
		cov[k] = v
	}
	if _, ok := a.Counters["states"]; ok {
		if _, ok := a.Counters["transitions"]; !ok {
			cov["transitions"] = a.Ops
		}
		if _, ok := a.Counters["traces_validated_against_impl"]; !ok {
			cov["traces_validated_against_impl"] = a.Evals
		}
	}
	if a.Expired {
		cov["cap"] = "internal deadline reached; the run stopped at the last completed shard unit and is NOT exhaustive: " + strings.Join(a.Notes, "; ")
	} else if len(a.Notes) > 0 {
		cov["notes"] = a.Notes
	}
	if len(a.Samples) == 0 {
		cov["samples"] = []any{"(no case executed)"}
	}
	for k, v := range a.Aux {
		cov[k] = v
	}
	kf := map[string]int64{}
	for k, v := range known {
		kf[k] = v
	}
	cov["known_findings_hit"] = kf
	if len(knownEx) > 0 {
		cov["known_finding_examples"] = knownEx
	}
	if len(merrs) > 0 {
		cov["machinery_errors"] = merrs
	}
	level := p.Level
	if level == "" {
		level = "model_checking"
	}
	ev := map[string]any{
		"property_id": p.ID, "tier": tier, "seed": seed(), "level": level, "coverage": cov,
		"assumptions": p.Assumptions, "wall_s": wall, "violations": nviol,
	}
	b, _ := json.MarshalIndent(ev, "", " ")
	os.MkdirAll(filepath.Join(OutDir, "evidence"), 0o755)
	os.WriteFile(filepath.Join(OutDir, "evidence", p.ID+".json"), b, 0o644)
}

func topN(m map[string]int64, n int) map[string]int64 {
	type kv struct {
		k string
		v int64
	}
	var s []kv
	for k, v := range m {
		s = append(s, kv{k, v})
	}
	sort.Slice(s, func(i, j int) bool { return s[i].v > s[j].v || s[i].v == s[j].v && s[i].k < s[j].k })
	out := map[string]int64{}
	for i, e := range s {
		if i >= n {
			break
		}
		out[e.k] = e.v
	}
	return out
}

func replayMain(props map[string]*Prop, file string) int {
	b, err := os.ReadFile(file)
	if err != nil {
		fmt.Fprintln(os.Stderr, err)
		return 2
	}
	var r struct {
		Property, Tier, Sig string
		W, N                int
		Seq                 int64
	}
	if err := json.Unmarshal(b, &r); err != nil {
		fmt.Fprintln(os.Stderr, err)
		return 2
	}
	p := props[r.Property]
	if p == nil {
		fmt.Fprintln(os.Stderr, "unknown property in replay file")
		return 2
	}
	self, _ := os.Executable()
	os.Setenv("VERIF_BUDGET_S", "3600")
	wr := runWorker(self, p, r.Tier, r.W, r.N, time.Now().Add(time.Hour), r.Seq)
	var vs []*VRec
	vs = append(vs, wr.crashes...)
	if wr.res != nil {
		vs = append(vs, wr.res.Viols...)
		if wr.res.Evals == 0 {
			fmt.Fprintln(os.Stderr, "replay: case not found (harness enumeration changed?)")
			return 2
		}
	}
	if len(vs) == 0 {
		fmt.Printf("replay: property=%s seq=%d held (no violation)\n", r.Property, r.Seq)
		return 0
	}
	for _, v := range vs {
		fmt.Printf("VIOLATION property=%s replay=%s sig=%q\n  case: %s\n  detail: %s\n", r.Property, file, v.Sig, v.Desc, v.Detail)
	}
	return 1
}
