package ref

import (
	"encoding/binary"
	"fmt"
)

// Walk is a schema-directed framing checker: it never looks at values, only at
// tags, wire types, counts and lengths, and insists that every length is exact
// and that the data ends exactly where the schema says (C05 L4, C12).
// body is an untagged body of type t (what follows a length prefix / top level).
func Walk(cfg Cfg, t *T, opt string, body []byte) error {
	n, err := walkBody(cfg, t, opt, body)
	if err != nil {
		return err
	}
	if n != len(body) {
		return fmt.Errorf("%s: %d trailing bytes", t, len(body)-n)
	}
	return nil
}

func uvarint(b []byte) (uint64, int, error) {
	v, n := binary.Uvarint(b)
	if n <= 0 {
		return 0, 0, fmt.Errorf("bad varint")
	}
	if n > 1 && b[n-1] == 0 {
		return 0, 0, fmt.Errorf("non-minimal varint")
	}
	return v, n, nil
}

// walkBody consumes one body of type t from the start of b when the body's extent
// is self-delimiting (varint, fixed); for length-delimited bodies b must be exactly
// the body.
func walkBody(cfg Cfg, t *T, opt string, b []byte) (int, error) {
	switch t.K {
	case KPtr:
		return walkBody(cfg, t.Elem, opt, b)
	case KBool, KInt, KInt8, KInt16, KInt32, KInt64, KUint, KUint8, KUint16, KUint32, KUint64, KNullInt, KNullBool:
		_, n, err := uvarint(b)
		return n, err
	case KFloat32:
		if len(b) < 4 {
			return 0, fmt.Errorf("short fixed32")
		}
		return 4, nil
	case KFloat64, KNullFloat:
		if len(b) < 8 {
			return 0, fmt.Errorf("short fixed64")
		}
		return 8, nil
	case KString, KNullString:
		return len(b), nil
	case KBytes:
		if rawBytes(opt) {
			return len(b), nil
		}
		return walkPacked(cfg, Leaf(KUint8), b)
	case KTime, KNullTime:
		return walkMessage(b, func(idx, wt int) (*T, string, bool) {
			if idx == 1 || idx == 2 {
				return Leaf(KUint64), "", wt == 0
			}
			return nil, "", false
		}, cfg)
	case KStruct:
		return walkMessage(b, func(idx, wt int) (*T, string, bool) {
			for _, f := range t.Fields {
				if f.Encoded() && f.Index == idx {
					return f.T, f.Opt, ClassOf(cfg, f.T, f.Opt).WireType() == wt
				}
			}
			return nil, "", false
		}, cfg)
	case KSlice:
		switch ClassOf(cfg, t, opt) {
		case CL:
			return walkPacked(cfg, t.Elem, b)
		case CS:
			cnt, n, err := uvarint(b)
			if err != nil {
				return 0, err
			}
			off := n
			for i := uint64(0); i < cnt; i++ {
				l, n, err := uvarint(b[off:])
				if err != nil {
					return 0, fmt.Errorf("element %d length: %v", i, err)
				}
				off += n
				if uint64(len(b)-off) < l {
					return 0, fmt.Errorf("element %d overruns", i)
				}
				if err := Walk(cfg, t.Elem, "", b[off:off+int(l)]); err != nil {
					return 0, err
				}
				off += int(l)
			}
			return off, nil
		}
		return 0, fmt.Errorf("repeated form has no body")
	case KMap:
		cnt, n, err := uvarint(b)
		if err != nil {
			return 0, err
		}
		off := n
		for i := uint64(0); i < cnt; i++ {
			l, n, err := uvarint(b[off:])
			if err != nil {
				return 0, fmt.Errorf("entry %d length: %v", i, err)
			}
			off += n
			if uint64(len(b)-off) < l {
				return 0, fmt.Errorf("entry %d overruns", i)
			}
			if err := walkEntry(cfg, t, b[off:off+int(l)]); err != nil {
				return 0, err
			}
			off += int(l)
		}
		return off, nil
	}
	return 0, fmt.Errorf("walk: bad kind")
}

func walkEntry(cfg Cfg, t *T, b []byte) error {
	n, err := walkMessage(b, func(idx, wt int) (*T, string, bool) {
		switch idx {
		case 1:
			return t.Key, "", ClassOf(cfg, t.Key, "").WireType() == wt
		case 2:
			return t.Elem, "", ClassOf(cfg, t.Elem, "").WireType() == wt
		}
		return nil, "", false
	}, cfg)
	if err == nil && n != len(b) {
		err = fmt.Errorf("map entry: trailing bytes")
	}
	return err
}

func walkPacked(cfg Cfg, elem *T, b []byte) (int, error) {
	off := 0
	for off < len(b) {
		n, err := walkBody(cfg, elem, "", b[off:])
		if err != nil {
			return 0, err
		}
		off += n
	}
	return off, nil
}

// walkMessage walks tag-prefixed fields until b is exhausted.
func walkMessage(b []byte, field func(idx, wt int) (*T, string, bool), cfg Cfg) (int, error) {
	off := 0
	for off < len(b) {
		tag, n, err := uvarint(b[off:])
		if err != nil {
			return 0, fmt.Errorf("tag: %v", err)
		}
		off += n
		idx, wt := int(tag>>3), int(tag&7)
		ft, fopt, ok := field(idx, wt)
		if ft == nil {
			return 0, fmt.Errorf("unknown field index %d", idx)
		}
		if !ok {
			return 0, fmt.Errorf("field %d has wire type %d, schema disagrees", idx, wt)
		}
		switch wt {
		case 0, 1, 5, 3:
			n, err := walkBody(cfg, ft, fopt, b[off:])
			if err != nil {
				return 0, fmt.Errorf("field %d: %v", idx, err)
			}
			off += n
		case 2:
			l, n, err := uvarint(b[off:])
			if err != nil {
				return 0, fmt.Errorf("field %d length: %v", idx, err)
			}
			off += n
			if uint64(len(b)-off) < l {
				return 0, fmt.Errorf("field %d overruns its container", idx)
			}
			body := b[off : off+int(l)]
			if ClassOf(cfg, ft, fopt) == CR {
				d := deref(ft)
				if d.K == KMap {
					err = walkEntry(cfg, d, body)
				} else {
					err = Walk(cfg, d.Elem, "", body)
				}
			} else {
				err = Walk(cfg, ft, fopt, body)
			}
			if err != nil {
				return 0, fmt.Errorf("field %d: %v", idx, err)
			}
			off += int(l)
		default:
			return 0, fmt.Errorf("wire type %d", wt)
		}
	}
	return off, nil
}

// WalkTop checks a complete Marshal output of a top-level value of type t.
func WalkTop(cfg Cfg, t *T, data []byte) error {
	if len(data) == 0 {
		return nil
	}
	return Walk(cfg, t, "", data)
}

// WireTypes returns the set of wire types occurring anywhere in body (schema-directed).
func WireTypes(cfg Cfg, t *T, body []byte, seen map[int]bool) {
	// re-walk collecting tags: cheap re-implementation over the same schema
	collect(cfg, t, "", body, seen)
}

func collect(cfg Cfg, t *T, opt string, b []byte, seen map[int]bool) {
	t = deref(t)
	msg := func(field func(idx int) (*T, string)) {
		off := 0
		for off < len(b) {
			tag, n, err := uvarint(b[off:])
			if err != nil {
				return
			}
			off += n
			wt := int(tag & 7)
			seen[wt] = true
			ft, fopt := field(int(tag >> 3))
			if ft == nil {
				return
			}
			switch wt {
			case 2:
				l, n, err := uvarint(b[off:])
				if err != nil || uint64(len(b)-off-n) < l {
					return
				}
				off += n
				body := b[off : off+int(l)]
				if ClassOf(cfg, ft, fopt) == CR {
					d := deref(ft)
					if d.K == KMap {
						collectEntry(cfg, d, body, seen)
					} else {
						collect(cfg, d.Elem, "", body, seen)
					}
				} else {
					collect(cfg, ft, fopt, body, seen)
				}
				off += int(l)
			default:
				n, err := walkBody(cfg, ft, fopt, b[off:])
				if err != nil {
					return
				}
				collect(cfg, ft, fopt, b[off:off+n], seen)
				off += n
			}
		}
	}
	switch t.K {
	case KStruct:
		msg(func(idx int) (*T, string) {
			for _, f := range t.Fields {
				if f.Encoded() && f.Index == idx {
					return f.T, f.Opt
				}
			}
			return nil, ""
		})
	case KTime, KNullTime:
		msg(func(idx int) (*T, string) { return Leaf(KUint64), "" })
	case KSlice:
		if ClassOf(cfg, t, opt) == CS {
			_, n, err := uvarint(b)
			if err != nil {
				return
			}
			off := n
			for off < len(b) {
				l, n, err := uvarint(b[off:])
				if err != nil || uint64(len(b)-off-n) < l {
					return
				}
				off += n
				collect(cfg, t.Elem, "", b[off:off+int(l)], seen)
				off += int(l)
			}
		}
	case KMap:
		_, n, err := uvarint(b)
		if err != nil {
			return
		}
		off := n
		for off < len(b) {
			l, n, err := uvarint(b[off:])
			if err != nil || uint64(len(b)-off-n) < l {
				return
			}
			off += n
			collectEntry(cfg, t, b[off:off+int(l)], seen)
			off += int(l)
		}
	}
}

func collectEntry(cfg Cfg, t *T, b []byte, seen map[int]bool) {
	e := Struct(F{Name: "K", Index: 1, T: t.Key}, F{Name: "V", Index: 2, T: t.Elem})
	collect(cfg, e, "", b, seen)
}
