package ref

// Orderings renders the encoding tree under several field orders, for the decode
// side of C02: every permutation of the outermost struct's fields (when it has at
// most maxPerm fields, otherwise every rotation), and one rendering in which every
// struct body and every map's entries at every depth are reversed.
func Orderings(n *Node, maxPerm int) [][]byte {
	var out [][]byte
	root := findPerm(n)
	if root != nil && len(root.Seq) > 1 {
		k := len(root.Seq)
		orig := append([]*Node(nil), root.Seq...)
		if k <= maxPerm {
			permute(k, func(p []int) {
				for i, j := range p {
					root.Seq[i] = orig[j]
				}
				out = append(out, n.Bytes())
			})
		} else {
			for r := 0; r < k; r++ {
				for i := range orig {
					root.Seq[i] = orig[(i+r)%k]
				}
				out = append(out, n.Bytes())
			}
		}
		copy(root.Seq, orig)
	} else {
		out = append(out, n.Bytes())
	}
	out = append(out, reversed(n).Bytes())
	return out
}

func findPerm(n *Node) *Node {
	if n.Perm {
		return n
	}
	for _, c := range n.Seq {
		if p := findPerm(c); p != nil {
			return p
		}
	}
	for _, c := range n.Set {
		if p := findPerm(c); p != nil {
			return p
		}
	}
	return nil
}

func reversed(n *Node) *Node {
	switch {
	case n.Seq != nil:
		cs := make([]*Node, len(n.Seq))
		for i, c := range n.Seq {
			cs[i] = reversed(c)
		}
		if n.Perm {
			for i, j := 0, len(cs)-1; i < j; i, j = i+1, j-1 {
				cs[i], cs[j] = cs[j], cs[i]
			}
		}
		return &Node{Seq: cs, Perm: n.Perm, n: n.n}
	case n.Set != nil:
		cs := make([]*Node, len(n.Set))
		for i, c := range n.Set {
			cs[len(cs)-1-i] = reversed(c)
		}
		return &Node{Set: cs, n: n.n}
	}
	return n
}

func permute(k int, f func([]int)) {
	p := make([]int, k)
	for i := range p {
		p[i] = i
	}
	var rec func(i int)
	rec = func(i int) {
		if i == k {
			f(p)
			return
		}
		for j := i; j < k; j++ {
			p[i], p[j] = p[j], p[i]
			rec(i + 1)
			p[i], p[j] = p[j], p[i]
		}
	}
	rec(0)
}
