package ref

import (
	"math"
	"strconv"
	"time"
)

// JM is a value of the JSON data model that the descriptor-driven decode of a
// typed value must render (C13).
type JM struct {
	Kind    string // obj arr str bytes int uint f32 f64 bool time
	S       string
	I       int64
	U       uint64
	F       float64
	T       time.Time
	Keys    []string
	Elems   []JM
	Unorder bool // object members / array elements may come in any order (maps)
}

// JSONModel renders v of type t as C13 prescribes. top: the value handed to
// Marshal itself (always rendered, even when it encodes to nothing).
func JSONModel(cfg Cfg, t *T, opt string, v V) JM { return jm(cfg, t, opt, v) }

func jm(cfg Cfg, t *T, opt string, v V) JM {
	switch t.K {
	case KBool, KNullBool:
		return JM{Kind: "bool", I: int64(v.U)}
	case KInt, KInt8, KInt16, KInt32, KInt64:
		if opt == "flat" {
			return JM{Kind: "int", I: int64(mask(v.U, bits(t)))}
		}
		return JM{Kind: "int", I: signExtend(v.U, bits(t))}
	case KNullInt:
		return JM{Kind: "int", I: int64(v.U)}
	case KUint, KUint8, KUint16, KUint32, KUint64:
		return JM{Kind: "uint", U: mask(v.U, bits(t))}
	case KFloat32:
		return JM{Kind: "f32", F: float64(math.Float32frombits(uint32(v.U)))}
	case KFloat64, KNullFloat:
		return JM{Kind: "f64", F: math.Float64frombits(v.U)}
	case KString, KNullString:
		return JM{Kind: "str", S: v.S}
	case KBytes:
		if rawBytes(opt) {
			return JM{Kind: "bytes", S: v.S}
		}
		a := JM{Kind: "arr"}
		for i := 0; i < len(v.S); i++ {
			a.Elems = append(a.Elems, JM{Kind: "uint", U: uint64(v.S[i])})
		}
		return a
	case KTime, KNullTime:
		return JM{Kind: "time", T: time.Unix(v.Sec, int64(v.Ns)).UTC()}
	case KPtr:
		if v.Nil {
			return jm(cfg, t.Elem, opt, Zero(t.Elem)) // only reachable at top level: nothing encoded, zero rendered
		}
		return jm(cfg, t.Elem, opt, v.E[0])
	case KSlice:
		a := JM{Kind: "arr"}
		for _, e := range v.E {
			if t.Elem.K == KPtr && ptrChainNil(t.Elem, e) {
				if ClassOf(cfg, t, opt) == CL {
					continue // packed: nil pointers contribute nothing
				}
				// counted: an empty element, rendered as the zero value like Unmarshal's pointer to zero
				a.Elems = append(a.Elems, jm(cfg, deref(t.Elem), "", Zero(deref(t.Elem))))
				continue
			}
			a.Elems = append(a.Elems, jm(cfg, t.Elem, "", e))
		}
		return a
	case KMap:
		if t.Key.K == KString || t.Key.K == KNullString {
			o := JM{Kind: "obj", Unorder: true}
			for i := 0; i+1 < len(v.E); i += 2 {
				o.Keys = append(o.Keys, v.E[i].S)
				o.Elems = append(o.Elems, present(cfg, t.Elem, "", v.E[i+1]))
			}
			return o
		}
		a := JM{Kind: "arr", Unorder: true}
		for i := 0; i+1 < len(v.E); i += 2 {
			e := JM{Kind: "obj"}
			if !Omit(t.Key, v.E[i]) {
				e.Keys = append(e.Keys, "key")
				e.Elems = append(e.Elems, present(cfg, t.Key, "", v.E[i]))
			}
			if !Omit(t.Elem, v.E[i+1]) {
				e.Keys = append(e.Keys, "value")
				e.Elems = append(e.Elems, present(cfg, t.Elem, "", v.E[i+1]))
			}
			a.Elems = append(a.Elems, e)
		}
		return a
	case KStruct:
		o := JM{Kind: "obj"}
		for i, f := range t.Fields {
			if !f.Encoded() || Omit(f.T, v.E[i]) {
				continue
			}
			name := f.Name
			if f.JSON != "" {
				name = f.JSON
			}
			o.Keys = append(o.Keys, name)
			o.Elems = append(o.Elems, present(cfg, f.T, f.Opt, v.E[i]))
		}
		return o
	}
	panic("jm: bad kind")
}

// present renders a value known to be present; a nil pointer / invalid null that
// is nevertheless present (map value) renders as its zero value.
func present(cfg Cfg, t *T, opt string, v V) JM {
	if (t.K == KPtr || isNull(t.K)) && v.Nil {
		return JM{Kind: "null"}
	}
	return jm(cfg, t, opt, v)
}

// FlatNegative reports whether v holds a negative value in a flat-encoded field
// narrower than 64 bits: the descriptor cannot know the width (documented caveat).
func FlatNegative(t *T, opt string, v V) bool {
	switch t.K {
	case KInt, KInt8, KInt16, KInt32, KInt64:
		return opt == "flat" && bits(t) < 64 && signExtend(v.U, bits(t)) < 0
	case KPtr:
		return !v.Nil && FlatNegative(t.Elem, opt, v.E[0])
	case KSlice:
		for _, e := range v.E {
			if FlatNegative(t.Elem, "", e) {
				return true
			}
		}
	case KMap:
		for i := 0; i+1 < len(v.E); i += 2 {
			if FlatNegative(t.Key, "", v.E[i]) || FlatNegative(t.Elem, "", v.E[i+1]) {
				return true
			}
		}
	case KStruct:
		for i, f := range t.Fields {
			if FlatNegative(f.T, f.Opt, v.E[i]) {
				return true
			}
		}
	}
	return false
}

// HasNonFinite reports whether v contains a NaN or an infinity.
func HasNonFinite(t *T, v V) bool {
	switch t.K {
	case KFloat32:
		f := float64(math.Float32frombits(uint32(v.U)))
		return math.IsNaN(f) || math.IsInf(f, 0)
	case KFloat64, KNullFloat:
		f := math.Float64frombits(v.U)
		return math.IsNaN(f) || math.IsInf(f, 0)
	case KPtr:
		return !v.Nil && HasNonFinite(t.Elem, v.E[0])
	case KSlice:
		for _, e := range v.E {
			if HasNonFinite(t.Elem, e) {
				return true
			}
		}
	case KMap:
		for i := 0; i+1 < len(v.E); i += 2 {
			if HasNonFinite(t.Key, v.E[i]) || HasNonFinite(t.Elem, v.E[i+1]) {
				return true
			}
		}
	case KStruct:
		for i, f := range t.Fields {
			if HasNonFinite(f.T, v.E[i]) {
				return true
			}
		}
	}
	return false
}

var _ = strconv.Itoa
