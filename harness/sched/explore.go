package sched

import "fmt"

// Explorer enumerates executions by depth-first search over decision points with
// iterative deviation (preemption + environment) bounding.
type Explorer struct {
	Bodies  func() []func()        // builds fresh thread bodies (fresh instance) per execution
	Check   func(r Result, id int) // oracle, called once per execution
	Bound   int                    // maximal total deviation cost (<0: unbounded)
	Limit   int64                  // stop after this many executions (0: none)
	Stop    func() bool            // external deadline
	Execs   int64
	Blocked int64 // executions cut short because every enabled thread was asleep
	Capped  bool
	Points  int64
	MaxDev  int
	Error   string
}

func (x *Explorer) Explore() {
	x.explore(nil)
}

func (x *Explorer) explore(prefix []int) {
	if x.Capped || x.Error != "" {
		return
	}
	if (x.Limit > 0 && x.Execs >= x.Limit) || (x.Stop != nil && x.Execs%64 == 0 && x.Stop()) {
		x.Capped = true
		return
	}
	r := Run(x.Bodies(), prefix, false)
	x.Execs++
	x.Points += int64(len(r.Points))
	if r.Diverged != "" {
		x.Error = r.Diverged + fmt.Sprintf(" (prefix %v)", prefix)
		return
	}
	x.Check(r, int(x.Execs))
	dev := 0
	for i, p := range r.Points {
		if i < len(prefix) {
			dev += p.Cost
			continue
		}
		// alternatives at point i (chosen is 0 here by construction)
		for alt := 1; alt < p.Alts; alt++ {
			c := dev + p.AltCost[alt]
			if x.Bound >= 0 && c > x.Bound {
				continue
			}
			if c > x.MaxDev {
				x.MaxDev = c
			}
			np := make([]int, i+1)
			copy(np, r.Choices[:i])
			np[i] = alt
			x.explore(np)
			if x.Capped || x.Error != "" {
				return
			}
		}
		dev += p.Cost
	}
}

// frame is one decision point of the depth-first search with sleep sets.
type frame struct {
	alts   []Alt
	env    bool
	chosen int
	done   []bool        // alternatives already explored from this state
	sleep  map[int]OpSig // threads asleep in this state (their pending op)
}

// ExploreAll enumerates one representative of every Mazurkiewicz trace (all
// interleavings up to commutation of independent operations) with sleep sets. It is
// sound for data-race-free code: two operations are independent when they touch
// different synchronisation objects (or different keys of one sync.Map, or only read).
// Environment choices are always fully enumerated.
func (x *Explorer) ExploreAll() {
	var stack []*frame
	for {
		if (x.Limit > 0 && x.Execs >= x.Limit) || (x.Stop != nil && x.Execs%64 == 0 && x.Stop()) {
			x.Capped = true
			return
		}
		depth := 0
		chooser := func(i int, alts []Alt, env bool) int {
			defer func() { depth++ }()
			if i < len(stack) {
				f := stack[i]
				if len(f.alts) != len(alts) {
					x.Error = fmt.Sprintf("replay divergence at point %d: %d alternatives, recorded %d", i, len(alts), len(f.alts))
					return -1
				}
				// Every execution runs on a fresh instance, so object addresses in the recorded
				// signatures are stale: rebind the frame to this execution's pending operations.
				// A sleeping thread has not moved since it fell asleep, so its pending operation is
				// the one listed for it here; one that is not listed (not enabled) is woken, which
				// is always sound.
				for j := range alts {
					if alts[j].Thread != f.alts[j].Thread {
						x.Error = fmt.Sprintf("replay divergence at point %d: alternative %d is thread %d, recorded %d", i, j, alts[j].Thread, f.alts[j].Thread)
						return -1
					}
				}
				f.alts = alts
				if !f.env {
					for t := range f.sleep {
						found := false
						for _, a := range alts {
							if a.Thread == t {
								f.sleep[t], found = a.Op, true
							}
						}
						if !found {
							delete(f.sleep, t)
						}
					}
				}
				return f.chosen
			}
			f := &frame{alts: alts, env: env, done: make([]bool, len(alts)), sleep: map[int]OpSig{}}
			if i > 0 {
				p := stack[i-1]
				if !p.env {
					taken := p.alts[p.chosen]
					for t, op := range p.sleep {
						if Independent(op, taken.Op) && t != taken.Thread {
							f.sleep[t] = op
						}
					}
					for j, a := range p.alts {
						if p.done[j] && j != p.chosen && a.Thread != taken.Thread && Independent(a.Op, taken.Op) {
							f.sleep[a.Thread] = a.Op
						}
					}
				} else {
					for t, op := range p.sleep {
						f.sleep[t] = op
					}
				}
			}
			f.chosen = -1
			for j, a := range alts {
				if env {
					f.chosen = j
					break
				}
				if _, asleep := f.sleep[a.Thread]; !asleep {
					f.chosen = j
					break
				}
			}
			stack = append(stack, f)
			if f.chosen < 0 {
				x.Blocked++
				return -1 // sleep-set blocked: every enabled thread is asleep, the execution is redundant
			}
			return f.chosen
		}
		r := RunWith(x.Bodies(), chooser)
		x.Execs++
		x.Points += int64(len(r.Points))
		if x.Error != "" {
			return
		}
		if !r.Abandoned {
			x.Check(r, int(x.Execs))
		}
		// backtrack: find the deepest frame with an alternative that is neither explored nor asleep
		for len(stack) > 0 {
			f := stack[len(stack)-1]
			if f.chosen >= 0 {
				f.done[f.chosen] = true
			}
			next := -1
			for j, a := range f.alts {
				if f.done[j] {
					continue
				}
				if !f.env {
					if _, asleep := f.sleep[a.Thread]; asleep {
						continue
					}
				}
				next = j
				break
			}
			if next >= 0 {
				f.chosen = next
				break
			}
			stack = stack[:len(stack)-1]
		}
		if len(stack) == 0 {
			return
		}
	}
}
