package props

import (
	"bytes"
	"fmt"
	"reflect"
	"strings"

	"verif/mc"
	"verif/ref"
)

func init() {
	register(&mc.Prop{
		ID: "C06",
		Rule: "explicit-state exploration of Marshal call histories on one instance and one buffer: history = sequence of <=3 (thorough 4) calls Marshal(buf, v, by value | by pointer) where buf is chosen from {nil, empty cap 0, empty with spare capacity, prefix with exact capacity, prefix with patterned spare capacity, the previous result, the previous result[:0]} " +
			"and v from a per-type set of values that always contains values encoding to nothing; types chosen to hit every interface representation (pointer-shaped structs, nested single-pointer structs, maps, pointers, ordinary structs, scalars, slices). " +
			"Oracle per call: nil error; result[:len(buf)] equals a snapshot of buf; result[len(buf):] matches the reference encoding tree; by-value and by-pointer agree. non-trivial = call with a non-empty buffer or a non-zero value",
		Assumptions: []string{"reference bytes from ref.EncTop; buffers are owned by the harness so aliasing of the result with the buffer is expected when capacity suffices"},
		Work:        c06Work,
		Post: func(a *mc.Agg) []string {
			return needDims(a, "buf:nil", "buf:prefix-exact", "buf:prefix-spare", "buf:prev", "buf:prev[:0]", "conv:value", "conv:pointer", "conv:reused-variable", "shape:direct-iface", "encodes-to-nothing", "capacity-sweep", "aliased-payload")
		},
	})
}

type c06Type struct {
	t      *ref.T
	direct bool
}

func c06Types() []c06Type {
	L := ref.Leaf
	pint := ref.Ptr(L(ref.KInt))
	sp := ref.Struct(ref.Fld(1, pint))
	return []c06Type{
		{sp, true},
		{ref.Struct(ref.Fld(1, ref.Map(L(ref.KString), L(ref.KInt)))), true},
		{ref.Struct(ref.Fld(1, sp)), true},
		{ref.Struct(ref.Fld(1, ref.Ptr(sp))), true},
		{ref.Struct(ref.Fld(1, ref.Ptr(L(ref.KString)))), true},
		{ref.Map(L(ref.KString), L(ref.KInt)), true},
		{ref.S0(), false},
		{ref.Struct(ref.Fld(1, ref.S0()), ref.Fld(2, L(ref.KInt))), false},
		{ref.Struct(ref.Fld(1, ref.Ptr(ref.S0())), ref.Fld(2, ref.Slice(ref.S0())), ref.Fld(3, ref.Map(L(ref.KString), ref.S0()))), false},
		{ref.Struct(), false},
		{ref.Struct(ref.Fld(1, pint), ref.Fld(2, L(ref.KInt))), false},
		{L(ref.KInt), false}, {L(ref.KString), false}, {L(ref.KBytes), false}, {L(ref.KFloat64), false}, {L(ref.KBool), false}, {L(ref.KTime), false},
		{ref.Slice(L(ref.KInt)), false}, {ref.Slice(L(ref.KString)), false}, {ref.Slice(ref.S0()), false},
		{ref.Struct(ref.Fld(1, ref.Slice(L(ref.KInt)))), false},
		{ref.Struct(ref.Fld(1, L(ref.KNullString))), false},
	}
}

type c06Call struct {
	buf   int // buffer kind
	val   int
	byPtr bool
	same  bool // byPtr only: the pointer is to one long-lived variable that is refilled before every call
}

var c06Bufs = []string{"nil", "empty-cap0", "empty-spare", "prefix-exact", "prefix-spare", "prev", "prev[:0]"}

func c06Work(c *mc.Ctx) {
	depth := 3
	if c.Tier == "thorough" {
		depth = 4
	}
	unit := 0
	for _, ct := range c06Types() {
		vals := ref.Values(ct.t, 1)
		if len(vals) > 4 {
			// zero, one "encodes to nothing but is not the zero value" if any, and two rich ones
			pick := []ref.V{vals[0]}
			for _, v := range vals[1:] {
				if ref.EncTop(ref.Cfg{}, ct.t, v).Len() == 0 {
					pick = append(pick, v)
					break
				}
			}
			pick = append(pick, vals[1], vals[len(vals)-1])
			vals = pick
		}
		var calls []c06Call
		for b := range c06Bufs {
			for v := range vals {
				calls = append(calls, c06Call{b, v, false, false}, c06Call{b, v, true, false}, c06Call{b, v, true, true})
			}
		}
		for _, first := range calls {
			unit++
			if !c.Owns(unit) {
				continue
			}
			if c.Expired() {
				c.Note("stopped at " + ct.t.String())
				return
			}
			if !c.Begin(fmt.Sprintf(`{"type":%q,"first_call":%q,"depth":%d,"values":%d}`, ct.t, c06CallStr(ct.t, vals, first), depth, len(vals))) {
				continue
			}
			c.AddEvals(-1)
			hist := []c06Call{first}
			var rec func()
			rec = func() {
				c06Run(c, ct, vals, hist)
				if len(hist) == depth {
					return
				}
				for _, cl := range calls {
					// later calls: the interesting buffers are the re-used ones; keep all
					hist = append(hist, cl)
					rec()
					hist = hist[:len(hist)-1]
				}
			}
			if depth > 2 {
				// bound the fan-out: beyond the second call only re-use buffers and pointer-shaped conventions vary
				rec2 := func() {
					c06Run(c, ct, vals, hist)
					for _, c2 := range calls {
						hist = append(hist, c2)
						c06Run(c, ct, vals, hist)
						for _, c3 := range calls {
							if c3.buf < 5 && !(c3.buf == 4) {
								continue
							}
							hist = append(hist, c3)
							c06Run(c, ct, vals, hist)
							if depth > 3 {
								for _, c4 := range calls {
									if c4.buf < 5 {
										continue
									}
									hist = append(hist, c4)
									c06Run(c, ct, vals, hist)
									hist = hist[:len(hist)-1]
								}
							}
							hist = hist[:len(hist)-1]
						}
						hist = hist[:len(hist)-1]
					}
				}
				rec2()
			} else {
				rec()
			}
			c.Outcome("subtree-done")
		}
	}
	c06CapSweep(c, &unit)
	if c.Owns(unit + 1) {
		c06AliasedPayload(c)
	}
}

// c06AliasedPayload: in-place re-encoding. The destination is the previous result re-sliced to
// length 0, and the value's []byte / string-free payloads are views INTO that previous result (only
// the header changes, to one of the same or a smaller width): the result must still be the prefix
// followed by the encoding of the value as it was when Marshal was called.
func c06AliasedPayload(c *mc.Ctx) {
	type msg struct {
		A int    `plenc:"1"`
		P []byte `plenc:"2"`
		Q []byte `plenc:"3"`
		Z int    `plenc:"9"`
	}
	type outer struct {
		H int `plenc:"1"`
		M msg `plenc:"2"`
	}
	if !c.Begin(`{"set":"aliased-payload"}`) {
		return
	}
	c.AddEvals(-1)
	c.Dim("aliased-payload")
	for _, l := range []int{1, 5, 126, 127, 128, 300} {
		for _, as := range [][2]int{{1, 2}, {300, 301}, {300, 2}, {70000, 3}} {
			for _, nested := range []bool{false, true} {
				for _, keep := range []int{0} { // (a kept prefix would shift the new headers onto the old payload: not claimed)
					c.AddEvals(1)
					c.Count("states", 1)
					c.AddNonTrivial(1)
					sig := "aliased-payload|"
					c.Guard(sig, func() {
						p := NewPlenc(ref.Cfg{})
						pay := bytes.Repeat([]byte{0xA5}, l)
						pay2 := bytes.Repeat([]byte{0x3C}, l/2+1)
						marshal := func(buf []byte, m msg) ([]byte, error) {
							if nested {
								return p.Marshal(buf, &outer{H: 4, M: m})
							}
							return p.Marshal(buf, &m)
						}
						prev, err := marshal(nil, msg{A: as[0], P: pay, Q: pay2, Z: 1})
						if err != nil {
							c.Violation(sig+"marshal-error", err.Error())
							return
						}
						i1, i2 := bytes.Index(prev, pay), bytes.Index(prev, pay2)
						if i1 < 0 || i2 < 0 {
							c.MachineErr("C06 aliased payload: payload not found in its own encoding")
							return
						}
						if keep > i1 {
							return
						}
						v2 := msg{A: as[1], P: prev[i1 : i1+len(pay)], Q: prev[i2 : i2+len(pay2)], Z: 2}
						want, _ := marshal(append([]byte(nil), prev[:keep]...), msg{A: as[1], P: pay, Q: pay2, Z: 2})
						got, err := marshal(prev[:keep], v2)
						c.Ops(3)
						if err != nil || !bytes.Equal(got, want) {
							c.Violation(sig+"result-depends-on-destination-sharing-memory-with-value", fmt.Sprintf("payload %d bytes, A %d -> %d, nested=%v, %d prefix bytes kept: got %s want %s (%v)", l, as[0], as[1], nested, keep, trunc(hx(got)), trunc(hx(want)), err))
							return
						}
						c.Outcome("ok")
					})
				}
			}
		}
	}
}

// c06CapSweep: the capacity dimension. For every shape and length of the size sweep (DESIGN §6)
// the value is marshalled into a destination with a 0- or 3-byte prefix and EVERY spare capacity
// from 0 to two more than the encoding needs (encodings above 2 KiB: the 6 smallest capacities,
// the 10 around the exact fit and every power of two between); the result must be the prefix
// followed by exactly the reference encoding whatever the capacity.
func c06CapSweep(c *mc.Ctx, unit *int) {
	for _, it := range ref.SizeSweep(c.Tier) {
		for _, cfg := range []ref.Cfg{{}, {ProtoTime: true, ProtoArrays: true}} {
			*unit++
			if !c.Owns(*unit) {
				continue
			}
			if c.Expired() {
				c.Note("capacity sweep stopped at " + it.T.String())
				return
			}
			if !c.Begin(fmt.Sprintf(`{"set":"capacity-sweep","cfg":%q,"type":%q,"lengths":%d}`, cfg, it.T, len(it.Vals))) {
				continue
			}
			c.AddEvals(-1)
			c.Dim("capacity-sweep")
			pre := fmt.Sprintf("capsweep|%s|%s|", cfg, it.T)
			p := NewPlenc(cfg)
			for _, v := range it.Vals {
				if c.Expired() {
					break
				}
				c.Heartbeat()
				tree := ref.EncTop(cfg, it.T, v)
				E := tree.Len()
				rv := ref.ToReflect(it.T, v)
				arg := rv.Addr().Interface()
				var spares []int
				if E <= 2048 {
					for sp := 0; sp <= E+2; sp++ {
						spares = append(spares, sp)
					}
				} else {
					spares = []int{0, 1, 2, 3, 4, 5}
					for q := 8; q < E-7; q *= 2 {
						spares = append(spares, q)
					}
					for sp := E - 7; sp <= E+2; sp++ {
						spares = append(spares, sp)
					}
				}
				bad := false
				for _, plen := range []int{0, 3} {
					for _, sp := range spares {
						if bad {
							break
						}
						c.AddEvals(1)
						c.Count("states", 1)
						c.AddNonTrivial(1)
						panicked := c.Guard(pre, func() {
							buf := make([]byte, plen, plen+sp)
							for k := range buf {
								buf[k] = 0xc0 + byte(k)
							}
							full := buf[:cap(buf)]
							for k := plen; k < len(full); k++ {
								full[k] = 0x5a
							}
							out, err := p.Marshal(buf, arg)
							c.Ops(1)
							where := fmt.Sprintf("encoding of %d bytes into a destination of length %d with %d spare", E, plen, sp)
							if err != nil {
								c.Violation(pre+"marshal-error", where+": "+err.Error())
								bad = true
								return
							}
							if len(out) < plen || !bytes.Equal(out[:plen], []byte{0xc0, 0xc1, 0xc2}[:plen]) {
								c.Violation(pre+"prefix-not-preserved", where)
								bad = true
								return
							}
							if !tree.MatchExact(out[plen:]) {
								c.Violation(pre+"appended-bytes-differ", fmt.Sprintf("%s: appended %d bytes %s", where, len(out)-plen, trunc(hx(out[plen:]))))
								bad = true
								return
							}
							c.Outcome("ok")
						})
						bad = bad || panicked
					}
				}
			}
			c.Outcome("subtree-done")
		}
	}
}

func c06CallStr(t *ref.T, vals []ref.V, cl c06Call) string {
	conv := "value"
	if cl.byPtr {
		conv = "&value"
	}
	if cl.same {
		conv = "&holder="
	}
	return fmt.Sprintf("Marshal(%s, %s %s)", c06Bufs[cl.buf], conv, ref.Str(t, vals[cl.val]))
}

// c06Run replays the whole history on a fresh instance and checks the last call
// (earlier calls were checked when they were the last one of a shorter history).
func c06Run(c *mc.Ctx, ct c06Type, vals []ref.V, hist []c06Call) {
	t := ct.t
	c.AddEvals(1)
	c.Count("states", 1)
	var names []string
	for _, h := range hist {
		names = append(names, c06CallStr(t, vals, h))
	}
	last := hist[len(hist)-1]
	if last.buf != 0 || ref.Str(t, vals[last.val]) != ref.Str(t, ref.Zero(t)) {
		c.NonTrivialKey(t.String() + strings.Join(names, ";"))
	}
	c.Dim("buf:" + c06Bufs[last.buf])
	if last.byPtr {
		c.Dim("conv:pointer")
	} else {
		c.Dim("conv:value")
	}
	if ct.direct {
		c.Dim("shape:direct-iface")
	}
	pre := fmt.Sprintf("%s|", t)
	c.Guard(pre, func() {
		p := NewPlenc(ref.Cfg{})
		var prev []byte
		holder := reflect.New(t.Reflect()).Elem()
		for i, cl := range hist {
			v := vals[cl.val]
			rv := ref.ToReflect(t, v)
			if cl.same {
				// the same variable, refilled: a codec must not remember anything about an address
				holder.Set(rv)
				rv = holder
				c.Dim("conv:reused-variable")
			}
			var buf []byte
			switch cl.buf {
			case 0:
				buf = nil
			case 1:
				buf = make([]byte, 0)
			case 2:
				buf = make([]byte, 0, 64)
			case 3:
				buf = []byte{0xde, 0xad, 0xbe}
				buf = buf[:3:3]
			case 4:
				buf = make([]byte, 3, 64)
				copy(buf, []byte{0xca, 0xfe, 0x01})
				for k := 3; k < 64; k++ {
					buf[:64][k] = 0x5a
				}
			case 5:
				buf = prev
			case 6:
				buf = prev[:0]
			}
			snap := append([]byte(nil), buf...)
			var arg any
			if cl.byPtr {
				arg = rv.Addr().Interface()
			} else {
				arg = rv.Interface()
			}
			out, err := p.Marshal(buf, arg)
			c.Ops(1)
			isLast := i == len(hist)-1
			if isLast {
				tree := ref.EncTop(ref.Cfg{}, t, v)
				if tree.Len() == 0 {
					c.Dim("encodes-to-nothing")
				}
				what := c06Bufs[cl.buf]
				conv := "value"
				if cl.byPtr {
					conv = "pointer"
				}
				if err != nil {
					c.Violation(pre+"marshal-error:"+conv, fmt.Sprintf("history %s: %v", strings.Join(names, "; "), err))
					return
				}
				if len(out) < len(snap) || !bytes.Equal(out[:len(snap)], snap) {
					c.Violation(pre+"prefix-not-preserved:"+what+":"+conv, fmt.Sprintf("history %s: buffer was %s, result %s", strings.Join(names, "; "), hx(snap), hx(out)))
					return
				}
				if !tree.MatchExact(out[len(snap):]) {
					c.Violation(pre+"appended-bytes-differ:"+what+":"+conv, fmt.Sprintf("history %s: appended %s, reference %s", strings.Join(names, "; "), hx(out[len(snap):]), hx(tree.Bytes())))
					return
				}
				if c.WantSample() {
					c.Sample(map[string]any{"type": t.String(), "history": names, "result": hx(out)})
				}
			}
			if err != nil {
				return
			}
			prev = out
		}
		c.Outcome("ok")
	})
}

var _ = reflect.TypeOf
