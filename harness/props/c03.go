package props

import (
	"fmt"
	"reflect"
	"strings"

	"verif/mc"
	"verif/ref"
)

func init() {
	register(&mc.Prop{
		ID: "C03",
		Rule: "S = every ordered tuple of n<=3 (thorough 4) fields drawn from one representative per skip-relevant encoding (varint, fixed32, fixed64, string, nested struct, packed slice, counted slice of strings / structs, map, time, pointer, slice of packed slices), followed by a sentinel field with the highest index, also nested one level (S as a field, as a slice element, as a map value under two keys and behind an already populated pointer of an outer struct; the last two with removals only); " +
			"S' = every subset of removals x every permutation of the remaining declarations with fresh names x optionally one added fresh-index field of each representative kind; values = full product of {zero, nz1, nz2} per field ({zero, nz2} for four-field tuples); the target S' is pre-populated with sentinel values. " +
			"Oracle: no error; shared indexes receive what decoding into S gives (reference expectation); removed fields are skipped exactly (the sentinel field after them is intact); fields absent from the data and added fields keep their pre-populated value. non-trivial = pair where at least one non-zero field of S is removed in S'",
		Assumptions: []string{"field kinds are representatives of wire classes, not every leaf"},
		Work:        c03Work,
		Post: func(a *mc.Agg) []string {
			return needDims(a, "removed:1", "removed:2", "reordered", "added", "nest:top", "nest:field", "nest:elem", "nest:mapval", "nest:ptr", "highest-index-first", "time-payload", "size-sweep", "emptied-element")
		},
	})
}

type c03Kind struct {
	name string
	t    *ref.T
	vals []ref.V // zero, nz1, nz2
	sent ref.V   // pre-populated sentinel for targets
}

func c03Kinds() []c03Kind {
	L := ref.Leaf
	s0 := ref.S0()
	str := func(s string) ref.V { return ref.V{S: s} }
	ptr := func(v ref.V) ref.V { return ref.V{E: []ref.V{v}} }
	sl := func(vs ...ref.V) ref.V { return ref.V{E: vs} }
	st := func(i int64, s string) ref.V { return ref.V{E: []ref.V{{U: uint64(i)}, {S: s}}} }
	return []c03Kind{
		{"varint", L(ref.KInt), []ref.V{{}, {U: 1}, {U: uint64(1 << 40)}}, ref.V{U: 77}},
		{"fixed32", L(ref.KFloat32), []ref.V{{}, {U: 0x3fc00000}, {U: 0xbfc00000}}, ref.V{U: 0x40000000}},
		{"fixed64", L(ref.KFloat64), []ref.V{{}, {U: 0x3ff8000000000000}, {U: 0x7ff0000000000000}}, ref.V{U: 0x4000000000000000}},
		{"string", L(ref.KString), []ref.V{str(""), str("a"), str(strings.Repeat("s", 130))}, str("sentinel")},
		{"struct", s0, []ref.V{st(0, ""), st(5, ""), st(-1, "in")}, st(9, "keep")},
		{"packed", ref.Slice(L(ref.KInt)), []ref.V{{Nil: true}, sl(ref.V{U: 1}), sl(ref.V{U: 300}, ref.V{}, ref.V{U: ^uint64(0)})}, sl(ref.V{U: 42})},
		{"strings", ref.Slice(L(ref.KString)), []ref.V{{Nil: true}, sl(str("")), sl(str("x"), str(""), str(strings.Repeat("y", 200)))}, sl(str("k"))},
		{"structs", ref.Slice(s0), []ref.V{{Nil: true}, sl(st(0, "")), sl(st(1, "a"), st(0, ""), st(2, "b"))}, sl(st(3, "k"))},
		{"map", ref.Map(L(ref.KString), L(ref.KInt)), []ref.V{{Nil: true}, {E: []ref.V{}}, {E: []ref.V{str("k"), {U: 2}, str(""), {}}}}, ref.V{E: []ref.V{str("s"), {U: 1}}}},
		{"time", L(ref.KTime), []ref.V{{Sec: -62135596800}, {Sec: 1}, {Sec: -5, Ns: 7}}, ref.V{Sec: 1000}},
		{"pointer", ref.Ptr(L(ref.KInt)), []ref.V{{Nil: true}, ptr(ref.V{}), ptr(ref.V{U: 9})}, ptr(ref.V{U: 8})},
		{"slices", ref.Slice(ref.Slice(L(ref.KUint))), []ref.V{{Nil: true}, sl(sl(ref.V{U: 1})), sl(sl(ref.V{U: 200}, ref.V{U: 1}), ref.V{Nil: true})}, sl(sl(ref.V{U: 5}))},
	}
}

func c03Work(c *mc.Ctx) {
	kinds := c03Kinds()
	n := 3
	if c.Tier == "thorough" {
		n = 4
	}
	unit := 0
	if c.Owns(0) {
		c03TimePayload(c, kinds)
	}
	c03SizeSweep(c)
	if c.Owns(1) {
		c03EmptiedElement(c)
	}
	var tuple []int
	var rec func()
	rec = func() {
		if len(tuple) > 0 {
			unit++
			if c.Owns(unit) && !c.Expired() {
				c03Tuple(c, kinds, tuple, false)
				// the first declared field carrying the struct's HIGHEST index: once removed, its index
				// lies beyond everything S' knows while shared fields still follow it on the wire
				c03Tuple(c, kinds, tuple, true)
			}
		}
		if len(tuple) == n {
			return
		}
		for k := range kinds {
			// beyond two fields only non-decreasing kind sequences: every ordered pair of kinds is adjacent on
			// the wire in the first two positions, further orderings are produced by the permutations of S'
			if len(tuple) >= 2 && k < tuple[len(tuple)-1] {
				continue
			}
			tuple = append(tuple, k)
			rec()
			tuple = tuple[:len(tuple)-1]
		}
	}
	rec()
}

// build constructs the struct type for the given (kind, index, name) fields plus the sentinel.
func c03Struct(kinds []c03Kind, idxs []int, kindOf []int, prefix string) *ref.T {
	fs := make([]ref.F, 0, len(idxs)+1)
	for i, ix := range idxs {
		fs = append(fs, ref.F{Name: fmt.Sprintf("%s%d", prefix, i), Index: ix, T: kinds[kindOf[i]].t})
	}
	fs = append(fs, ref.F{Name: prefix + "Sentinel", Index: 60, T: ref.Leaf(ref.KString)})
	return ref.Struct(fs...)
}

func c03Tuple(c *mc.Ctx, kinds []c03Kind, tuple []int, hi bool) {
	n := len(tuple)
	idxs := make([]int, n)
	names := make([]string, n)
	for i := range tuple {
		idxs[i] = i + 1
		names[i] = kinds[tuple[i]].name
	}
	if hi {
		idxs[0] = 100
		names[0] += "@100"
		c.Dim("highest-index-first")
	}
	S := c03Struct(kinds, idxs, tuple, "A")
	if !c.Begin(fmt.Sprintf(`{"S":%q}`, strings.Join(names, ","))) {
		return
	}
	c.AddEvals(-1)
	p := NewPlenc(ref.Cfg{})
	// every S' : subset of kept fields, permutation, optional added field
	type variant struct {
		keep  []int // positions of S kept, in declaration order of S'
		added int   // kind index of an added field, -1 none
		basic bool  // declaration order kept, nothing added (the only variants run for the map-value and pointer nestings)
	}
	var variants []variant
	for mask := 0; mask < 1<<n; mask++ {
		var kept []int
		for i := 0; i < n; i++ {
			if mask&(1<<i) != 0 {
				kept = append(kept, i)
			}
		}
		first := true
		permuteInts(kept, func(pm []int) {
			variants = append(variants, variant{append([]int(nil), pm...), -1, first})
			first = false
		})
		// additions with the kept fields in reverse order (one ordering is enough for additions)
		rev := append([]int(nil), kept...)
		for i, j := 0, len(rev)-1; i < j; i, j = i+1, j-1 {
			rev[i], rev[j] = rev[j], rev[i]
		}
		for ak := range kinds {
			variants = append(variants, variant{rev, ak, false})
		}
	}
	// values of S: full product over {zero,nz1,nz2}
	choice := make([]int, n)
	var vals []ref.V
	var recv func(i int)
	recv = func(i int) {
		if i == n {
			v := ref.V{E: make([]ref.V, n+1)}
			for k := 0; k < n; k++ {
				v.E[k] = kinds[tuple[k]].vals[choice[k]]
			}
			v.E[n] = ref.V{S: "END"}
			vals = append(vals, v)
			// the same value with the trailing field omitted: the last declared field really is last on the wire
			v2 := ref.V{E: append([]ref.V(nil), v.E...)}
			v2.E[n] = ref.V{S: ""}
			vals = append(vals, v2)
			return
		}
		for x := 0; x < 3; x++ {
			if n >= 4 && x == 1 {
				continue // four-field tuples (thorough tier): {zero, nz2} per field keeps the tier inside its budget
			}
			choice[i] = x
			recv(i + 1)
		}
	}
	recv(0)
	for _, nest := range []string{"top", "field", "elem", "mapval", "ptr"} {
		for _, v := range vals {
			// encode with the real encoder (C02 binds it to the reference); nest as requested
			var data []byte
			var err error
			inner := ref.ToReflect(S, v)
			var outerT *ref.T
			switch nest {
			case "top":
				data, err = p.Marshal(nil, inner.Addr().Interface())
			case "field":
				outerT = ref.Struct(ref.F{Name: "In", Index: 3, T: S}, ref.F{Name: "After", Index: 4, T: ref.Leaf(ref.KInt)})
				data, err = p.Marshal(nil, ref.ToReflect(outerT, ref.V{E: []ref.V{v, {U: 5}}}).Addr().Interface())
			case "elem":
				outerT = ref.Struct(ref.F{Name: "In", Index: 3, T: ref.Slice(S)}, ref.F{Name: "After", Index: 4, T: ref.Leaf(ref.KInt)})
				data, err = p.Marshal(nil, ref.ToReflect(outerT, ref.V{E: []ref.V{{E: []ref.V{v, v}}, {U: 5}}}).Addr().Interface())
			case "mapval":
				outerT = ref.Struct(ref.F{Name: "In", Index: 3, T: ref.Map(ref.Leaf(ref.KString), S)}, ref.F{Name: "After", Index: 4, T: ref.Leaf(ref.KInt)})
				data, err = p.Marshal(nil, ref.ToReflect(outerT, ref.V{E: []ref.V{{E: []ref.V{{S: "k"}, v, {S: ""}, v}}, {U: 5}}}).Addr().Interface())
			case "ptr":
				outerT = ref.Struct(ref.F{Name: "In", Index: 3, T: ref.Ptr(S)}, ref.F{Name: "After", Index: 4, T: ref.Leaf(ref.KInt)})
				data, err = p.Marshal(nil, ref.ToReflect(outerT, ref.V{E: []ref.V{{E: []ref.V{v}}, {U: 5}}}).Addr().Interface())
			}
			if err != nil {
				c.Violation("marshal-error|"+strings.Join(names, ","), err.Error())
				return
			}
			for _, vr := range variants {
				if (nest == "mapval" || nest == "ptr" || hi) && !vr.basic {
					continue
				}
				c03Pair(c, p, kinds, tuple, idxs, names, S, v, data, nest, vr.keep, vr.added)
			}
		}
	}
	c.Outcome("tuple-done")
}

// c03TimePayload: a time is a two-field message (seconds = 1, nanoseconds = 2); data written by a
// version whose timestamp message has grown further fields (of every kind, in every position)
// must still decode, the unknown fields being skipped by their own wire type. Both time codecs.
func c03TimePayload(c *mc.Ctx, kinds []c03Kind) {
	if !c.Begin(`{"S":"time payload with unknown fields"}`) {
		return
	}
	c.AddEvals(-1)
	c.Dim("time-payload")
	L := ref.Leaf
	for _, cfg := range []ref.Cfg{{}, {ProtoTime: true}} {
		secT, nsT := L(ref.KInt64), L(ref.KInt32)
		if cfg.ProtoTime {
			secT, nsT = L(ref.KUint64), L(ref.KUint32)
		}
		p := NewPlenc(cfg)
		reader := ref.Struct(ref.Fld(1, L(ref.KTime)), ref.Fld(2, L(ref.KInt)))
		for ki, k := range kinds {
			for _, pos := range []int{0, 1, 2} { // where the extra field is declared: before, between, after
				for xi, xv := range k.vals {
					for _, tv := range []ref.V{{Sec: 1600000000, Ns: 5}, {Sec: 1, Ns: 0}, {Sec: 0, Ns: 999999999}} {
						fs := []ref.F{{Name: "S", Index: 1, T: secT}, {Name: "N", Index: 2, T: nsT}}
						vs := []ref.V{{U: uint64(tv.Sec)}, {U: uint64(tv.Ns)}}
						extra := ref.F{Name: "X", Index: 3 + ki%3*7, T: k.t}
						fs = append(fs[:pos:pos], append([]ref.F{extra}, fs[pos:]...)...)
						vs = append(vs[:pos:pos], append([]ref.V{xv}, vs[pos:]...)...)
						stamp := ref.Struct(fs...)
						writer := ref.Struct(ref.Fld(1, stamp), ref.Fld(2, L(ref.KInt)))
						c.AddEvals(1)
						c.Count("states", 1)
						c.Ops(2)
						if xi > 0 {
							c.NonTrivialKey(fmt.Sprintf("tp%v%d%d%d%d", cfg, ki, pos, xi, tv.Sec))
						}
						sig := fmt.Sprintf("time-payload|%s|%s|", cfg, k.name)
						c.Guard(sig, func() {
							data, err := p.Marshal(nil, ref.ToReflect(writer, ref.V{E: []ref.V{{E: vs}, {U: 77}}}).Addr().Interface())
							if err != nil {
								c.Violation(sig+"marshal-error", err.Error())
								return
							}
							out := reflect.New(reader.Reflect())
							if err := p.Unmarshal(data, out.Interface()); err != nil {
								c.Violation(sig+"unmarshal-error", fmt.Sprintf("timestamp message %s value %s data %s: %v", stamp, ref.Str(stamp, ref.V{E: vs}), hx(data), err))
								return
							}
							got := ref.FromReflect(reader, out.Elem())
							if got.E[0].Sec != tv.Sec || got.E[0].Ns != tv.Ns || got.E[1].U != 77 {
								c.Violation(sig+"mismatch", fmt.Sprintf("timestamp message %s value %s data %s: decoded %s", stamp, ref.Str(stamp, ref.V{E: vs}), hx(data), ref.Str(reader, got)))
							}
						})
					}
				}
			}
		}
	}
	c.Outcome("time-payload-done")
}

func permuteInts(a []int, f func([]int)) {
	var rec func(i int)
	rec = func(i int) {
		if i == len(a) {
			f(a)
			return
		}
		for j := i; j < len(a); j++ {
			a[i], a[j] = a[j], a[i]
			rec(i + 1)
			a[i], a[j] = a[j], a[i]
		}
	}
	rec(0)
}

func c03Pair(c *mc.Ctx, p interface {
	Unmarshal([]byte, interface{}) error
}, kinds []c03Kind, tuple []int, idxs []int, names []string, S *ref.T, v ref.V, data []byte, nest string, keep []int, added int) {
	n := len(tuple)
	c.AddEvals(1)
	c.Count("states", 1)
	c.Ops(1)
	c.Dim("nest:" + nest)
	removed := n - len(keep)
	if removed > 0 {
		c.Dim(fmt.Sprintf("removed:%d", removed))
	}
	reordered := false
	for i := 1; i < len(keep); i++ {
		if keep[i] < keep[i-1] {
			reordered = true
		}
	}
	if reordered {
		c.Dim("reordered")
	}
	// S' fields: kept ones (fresh names), optional added one with a fresh index, sentinel
	var fs []ref.F
	for i, k := range keep {
		fs = append(fs, ref.F{Name: fmt.Sprintf("B%d", i), Index: idxs[k], T: kinds[tuple[k]].t})
	}
	if added >= 0 {
		c.Dim("added")
		fs = append(fs, ref.F{Name: "Added", Index: 30, T: kinds[added].t})
	}
	fs = append(fs, ref.F{Name: "BSentinel", Index: 60, T: ref.Leaf(ref.KString)})
	S2 := ref.Struct(fs...)
	// pre-populated target and expectation
	pre := ref.V{E: make([]ref.V, len(fs))}
	want := ref.V{E: make([]ref.V, len(fs))}
	nontrivial := false
	keptSet := map[int]bool{}
	for i, k := range keep {
		keptSet[k] = true
		pre.E[i] = kinds[tuple[k]].sent
		alts := ref.Merge(ref.Cfg{}, kinds[tuple[k]].t, "", kinds[tuple[k]].sent, v.E[k], false)
		want.E[i] = alts[0]
	}
	for k := 0; k < n; k++ {
		if !keptSet[k] && !ref.Omit(kinds[tuple[k]].t, v.E[k]) {
			nontrivial = true
		}
	}
	j := len(keep)
	if added >= 0 {
		pre.E[j] = kinds[added].sent
		want.E[j] = kinds[added].sent
		j++
	}
	pre.E[j] = ref.V{S: "before"}
	want.E[j] = ref.V{S: "END"}
	if v.E[n].S == "" {
		want.E[j] = ref.V{S: "before"} // absent from the data: the prior value stays
	}
	sig := fmt.Sprintf("%s|S=%s|", nest, strings.Join(names, ","))
	desc := func() string {
		return fmt.Sprintf("S=%s value=%s S'=%s nest=%s data=%s", S, ref.Str(S, v), S2, nest, hx(data))
	}
	if nontrivial {
		c.NonTrivialKey(sig + ref.Str(S, v) + S2.String())
	}
	var target reflect.Value
	var gotV ref.V
	var err error
	c.Guard(sig, func() {
		switch nest {
		case "top":
			target = reflect.New(S2.Reflect())
			target.Elem().Set(ref.ToReflect(S2, pre))
			err = p.Unmarshal(data, target.Interface())
			gotV = ref.FromReflect(S2, target.Elem())
		case "field":
			o := ref.Struct(ref.F{Name: "In", Index: 3, T: S2}, ref.F{Name: "After", Index: 4, T: ref.Leaf(ref.KInt)})
			target = reflect.New(o.Reflect())
			target.Elem().Set(ref.ToReflect(o, ref.V{E: []ref.V{pre, {U: 1}}}))
			err = p.Unmarshal(data, target.Interface())
			ov := ref.FromReflect(o, target.Elem())
			gotV = ov.E[0]
			if err == nil && ov.E[1].U != 5 {
				c.Violation(sig+"field-after-nested-struct-desynchronised", desc())
				return
			}
		case "elem":
			o := ref.Struct(ref.F{Name: "In", Index: 3, T: ref.Slice(S2)}, ref.F{Name: "After", Index: 4, T: ref.Leaf(ref.KInt)})
			target = reflect.New(o.Reflect())
			err = p.Unmarshal(data, target.Interface())
			ov := ref.FromReflect(o, target.Elem())
			if err == nil && (len(ov.E[0].E) != 2 || ov.E[1].U != 5) {
				c.Violation(sig+"slice-of-evolved-structs-desynchronised", desc())
				return
			}
			if err == nil {
				gotV = ov.E[0].E[1]
				// fresh elements: absent fields are zero, not the sentinel
				for i, k := range keep {
					want.E[i] = ref.Merge(ref.Cfg{}, kinds[tuple[k]].t, "", ref.Zero(kinds[tuple[k]].t), v.E[k], false)[0]
				}
				if added >= 0 {
					want.E[len(keep)] = ref.Zero(kinds[added].t)
				}
				if v.E[n].S == "" {
					want.E[len(want.E)-1] = ref.V{S: ""}
				}
			}
		case "mapval":
			o := ref.Struct(ref.F{Name: "In", Index: 3, T: ref.Map(ref.Leaf(ref.KString), S2)}, ref.F{Name: "After", Index: 4, T: ref.Leaf(ref.KInt)})
			target = reflect.New(o.Reflect())
			err = p.Unmarshal(data, target.Interface())
			ov := ref.FromReflect(o, target.Elem())
			if err == nil && (len(ov.E[0].E) != 4 || ov.E[1].U != 5) {
				c.Violation(sig+"map-of-evolved-structs-desynchronised", desc())
				return
			}
			if err == nil {
				// fresh map values: absent fields are zero, not the sentinel; both entries must agree
				for i, k := range keep {
					want.E[i] = ref.Merge(ref.Cfg{}, kinds[tuple[k]].t, "", ref.Zero(kinds[tuple[k]].t), v.E[k], false)[0]
				}
				if v.E[n].S == "" {
					want.E[len(want.E)-1] = ref.V{S: ""}
				}
				gotV = ov.E[0].E[1]
				if path, detail, differ := ref.Diff(S2, want, ov.E[0].E[3]); differ {
					c.Violation(sig+"mismatch:"+path, desc()+": second entry: "+detail)
					return
				}
			}
		case "ptr":
			// the target already points at a populated struct: absent fields keep their prior value behind the pointer
			o := ref.Struct(ref.F{Name: "In", Index: 3, T: ref.Ptr(S2)}, ref.F{Name: "After", Index: 4, T: ref.Leaf(ref.KInt)})
			target = reflect.New(o.Reflect())
			target.Elem().Set(ref.ToReflect(o, ref.V{E: []ref.V{{E: []ref.V{pre}}, {U: 1}}}))
			err = p.Unmarshal(data, target.Interface())
			ov := ref.FromReflect(o, target.Elem())
			if err == nil && (ov.E[0].Nil || len(ov.E[0].E) != 1 || ov.E[1].U != 5) {
				c.Violation(sig+"field-after-pointed-to-struct-desynchronised", desc())
				return
			}
			if err == nil {
				gotV = ov.E[0].E[0]
			}
		}
		if err != nil {
			c.Violation(sig+"unmarshal-error", desc()+": "+err.Error())
			return
		}
		if path, detail, differ := ref.Diff(S2, want, gotV); differ {
			c.Violation(sig+"mismatch:"+path, desc()+": "+detail)
			return
		}
		if c.WantSample() {
			c.Sample(map[string]string{"S": S.String(), "S'": S2.String(), "value": ref.Str(S, v), "nest": nest, "data": hx(data)})
		}
	})
}

// The size dimension of skipping: one removed field at a time carries a payload of l bytes, for l
// around every power of two from 2^7 to 2^21 (thorough 2^24) and the bit patterns 11.. and 101..
// between them (so that every bit of a multi-byte length varint is seen both set and clear).
type c03Big struct {
	A   string            `plenc:"1"`
	L   []string          `plenc:"2"`
	P   []uint8           `plenc:"3"`
	N   c03BigIn          `plenc:"4"`
	M   map[string]string `plenc:"5"`
	By  []byte            `plenc:"6"`
	SS  []c03BigIn        `plenc:"7"`
	LP  []string          `plenc:"8,proto"`
	B   int               `plenc:"10"`
	End string            `plenc:"60"`
}
type c03BigIn struct {
	X string `plenc:"1"`
	Y int    `plenc:"2"`
}
type c03Small struct {
	B   int    `plenc:"10"`
	End string `plenc:"60"`
}
type c03BigOuter struct {
	In    c03Big   `plenc:"1"`
	Elems []c03Big `plenc:"2"`
	After int      `plenc:"3"`
}
type c03SmallOuter struct {
	In    c03Small   `plenc:"1"`
	Elems []c03Small `plenc:"2"`
	After int        `plenc:"3"`
}

func c03SizeSweep(c *mc.Ctx) {
	maxK := 21
	if c.Tier == "thorough" {
		maxK = 24
	}
	var lens []int
	for k := 7; k <= maxK; k++ {
		lens = append(lens, 1<<k-1, 1<<k, 1<<k+1, 3<<(k-1), 5<<(k-2))
	}
	fields := []string{"A", "L", "P", "N", "M", "By", "SS", "LP"}
	longEnd := strings.Repeat("E", 40000)
	for li, l := range lens {
		if !c.Owns(li) || c.Expired() {
			continue
		}
		if !c.Begin(fmt.Sprintf(`{"set":"size-sweep","removed_payload_bytes":%d}`, l)) {
			continue
		}
		c.AddEvals(-1)
		c.Dim("size-sweep")
		pay := strings.Repeat("p", l)
		for _, f := range fields {
			for _, end := range []string{"END", longEnd} {
				c.AddEvals(1)
				c.Count("states", 1)
				c.AddNonTrivial(1)
				sig := fmt.Sprintf("size-sweep|%s|", f)
				c.Guard(sig, func() {
					big := c03Big{B: 10, End: end}
					switch f {
					case "A":
						big.A = pay
					case "L":
						big.L = []string{"x", pay, "", "y"}
					case "P":
						big.P = []uint8(pay)
					case "N":
						big.N = c03BigIn{X: pay, Y: 3}
					case "M":
						big.M = map[string]string{"k": pay}
					case "By":
						big.By = []byte(pay)
					case "SS":
						big.SS = []c03BigIn{{Y: 1}, {X: pay, Y: 2}, {}}
					case "LP":
						big.LP = []string{"x", pay, "y"}
					}
					p := NewPlenc(ref.Cfg{})
					check := func(where string, data []byte, got c03Small, err error) bool {
						if err != nil {
							c.Violation(sig+"decode-error:"+where, fmt.Sprintf("removed field %s with a payload of %d bytes, %d bytes follow it: %v", f, l, len(end), err))
							return false
						}
						if got.B != 10 || got.End != end {
							c.Violation(sig+"fields-after-the-skipped-one-differ:"+where, fmt.Sprintf("removed field %s with a payload of %d bytes: B=%d (want 10), End has %d bytes (want %d)", f, l, got.B, len(got.End), len(end)))
							return false
						}
						return true
					}
					data, err := p.Marshal(nil, &big)
					if err != nil {
						c.Violation(sig+"marshal-error", err.Error())
						return
					}
					got := c03Small{B: -1, End: "stale"}
					err = p.Unmarshal(data, &got)
					c.Ops(2)
					if !check("top", data, got, err) {
						return
					}
					// nested: as a struct field and as slice elements, with a field after them
					outer := c03BigOuter{In: big, Elems: []c03Big{{B: 10, End: end}, big}, After: 77}
					data, err = p.Marshal(nil, &outer)
					if err != nil {
						c.Violation(sig+"marshal-error", err.Error())
						return
					}
					var so c03SmallOuter
					err = p.Unmarshal(data, &so)
					c.Ops(2)
					if !check("field", data, so.In, err) {
						return
					}
					if len(so.Elems) != 2 || so.After != 77 {
						c.Violation(sig+"fields-after-the-skipped-one-differ:elem", fmt.Sprintf("removed field %s with a payload of %d bytes: %d elements (want 2), After=%d (want 77)", f, l, len(so.Elems), so.After))
						return
					}
					if !check("elem", data, so.Elems[0], nil) || !check("elem", data, so.Elems[1], nil) {
						return
					}
					c.Outcome("ok")
				})
			}
		}
	}
}

// c03EmptiedElement: EVERY field of an element type is removed, so that in S' the element is the
// zero-sized struct{} while the data still carries the old fields in every entry - inside a slice,
// a slice of pointers, a map value, a pointer and a nested field, each followed by known fields.
type c03OldEl struct {
	A int    `plenc:"1"`
	B string `plenc:"2"`
	C []int  `plenc:"3"`
}
type c03OldHolder struct {
	L     []c03OldEl          `plenc:"1"`
	M     map[string]c03OldEl `plenc:"2"`
	P     *c03OldEl           `plenc:"3"`
	LP    []*c03OldEl         `plenc:"4"`
	N     c03OldEl            `plenc:"5"`
	LR    []c03OldEl          `plenc:"6,proto"`
	After int                 `plenc:"7"`
	End   string              `plenc:"60"`
}
type c03NewHolder struct {
	L     []struct{}          `plenc:"1"`
	M     map[string]struct{} `plenc:"2"`
	P     *struct{}           `plenc:"3"`
	LP    []*struct{}         `plenc:"4"`
	N     struct{}            `plenc:"5"`
	LR    []struct{}          `plenc:"6,proto"`
	After int                 `plenc:"7"`
	End   string              `plenc:"60"`
}

func c03EmptiedElement(c *mc.Ctx) {
	if !c.Begin(`{"set":"emptied-element"}`) {
		return
	}
	c.AddEvals(-1)
	c.Dim("emptied-element")
	els := []c03OldEl{{}, {A: 1}, {B: "b"}, {A: -5, B: strings.Repeat("x", 130), C: []int{1, 2, 300}}}
	// every subset of the six positions populated, with 1..3 elements drawn from els
	for mask := 0; mask < 64; mask++ {
		for n := 1; n <= 3; n++ {
			for first := range els {
				c.AddEvals(1)
				c.Count("states", 1)
				c.AddNonTrivial(1)
				sig := "emptied-element|"
				c.Guard(sig, func() {
					pick := func(i int) c03OldEl { return els[(first+i)%len(els)] }
					old := c03OldHolder{After: 7, End: "END"}
					for i := 0; i < n; i++ {
						e := pick(i)
						if mask&1 != 0 {
							old.L = append(old.L, e)
						}
						if mask&2 != 0 {
							if old.M == nil {
								old.M = map[string]c03OldEl{}
							}
							old.M[fmt.Sprint("k", i)] = e
						}
						if mask&8 != 0 {
							ec := e
							old.LP = append(old.LP, &ec)
						}
						if mask&32 != 0 {
							old.LR = append(old.LR, e)
						}
					}
					if mask&4 != 0 {
						e := pick(0)
						old.P = &e
					}
					if mask&16 != 0 {
						old.N = pick(0)
					}
					p := NewPlenc(ref.Cfg{})
					data, err := p.Marshal(nil, &old)
					if err != nil {
						c.Violation(sig+"marshal-error", err.Error())
						return
					}
					got := c03NewHolder{After: -1, End: "stale"}
					err = p.Unmarshal(data, &got)
					c.Ops(2)
					where := fmt.Sprintf("positions %06b, %d elements starting at #%d", mask, n, first)
					if err != nil {
						c.Violation(sig+"decode-error", where+": "+err.Error()+" data="+hx(data))
						return
					}
					if got.After != 7 || got.End != "END" || len(got.L) != len(old.L) || len(got.M) != len(old.M) || len(got.LP) != len(old.LP) || len(got.LR) != len(old.LR) || (got.P == nil) != (old.P == nil) {
						c.Violation(sig+"fields-after-the-emptied-elements-differ", fmt.Sprintf("%s: After=%d End=%q lengths %d/%d/%d/%d (want %d/%d/%d/%d) data=%s", where, got.After, got.End,
							len(got.L), len(got.M), len(got.LP), len(got.LR), len(old.L), len(old.M), len(old.LP), len(old.LR), hx(data)))
						return
					}
					c.Outcome("ok")
				})
			}
		}
	}
}
