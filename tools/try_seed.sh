#!/bin/sh
# usage: try_seed.sh <PROP-ID> <dir-with-patch.diff-and-demo> [check-ids...]
# 1. confirms the seeded change independently in a scratch worktree (suite passes with it,
#    demo fails with it, demo passes without it); 2. applies it to /repo, runs the checks
#    (default: the property's own quick check), reverts; prints a summary.
export GOFLAGS=-mod=mod GOPROXY=off GOSUMDB=off GOTOOLCHAIN=local
ID=$1; SRC=$2; shift 2
CHECKS=${*:-$ID}
[ -s $SRC/patch.diff ] || { echo "no patch.diff in $SRC"; exit 2; }
W=/tmp/tryseed.$$
git -C /repo worktree add -q $W HEAD || exit 2
cleanup() { git -C /repo worktree remove --force $W 2>/dev/null; git -C /repo checkout -- . 2>/dev/null; }
trap cleanup EXIT INT TERM
DEMO=$(cd $SRC && git status --porcelain | grep -a '^??' | awk '{print $2}' | grep -a '_test.go$' | head -1)
[ -n "$DEMO" ] || DEMO=$(cd $SRC && find . -name 'seed_demo_test.go' | head -1 | sed 's|^\./||')
echo "demo test file: $DEMO"
PKG=./$(dirname $DEMO)
(cd $W && git apply $SRC/patch.diff) || { echo "RESULT $ID patch-does-not-apply"; exit 1; }
SUITE=fail
for try in 1 2 3; do (cd $W && go test -vet=off -count=1 ./... >/tmp/tryseed.$$.log 2>&1) && { SUITE=pass; break; }; done
echo "suite with change: $SUITE"; [ $SUITE = pass ] || grep -a -- "--- FAIL\|^FAIL\|panic" /tmp/tryseed.$$.log | head -5
mkdir -p $W/$(dirname $DEMO); cp $SRC/$DEMO $W/$DEMO
DEMOWITH=pass; (cd $W && go test -vet=off -count=1 -run TestSeedDemo $PKG >/tmp/tryseed.$$.log 2>&1) || DEMOWITH=fail
echo "demo with change: $DEMOWITH"
(cd $W && git apply -R $SRC/patch.diff)
DEMOWITHOUT=fail; (cd $W && go test -vet=off -count=1 -run TestSeedDemo $PKG >/tmp/tryseed.$$.log 2>&1) && DEMOWITHOUT=pass
echo "demo without change: $DEMOWITHOUT"
rm -f /tmp/tryseed.$$.log
# run the checks against /repo with the change applied
[ -z "$(git -C /repo status --porcelain)" ] || { echo "/repo not clean"; exit 2; }
git -C /repo apply $SRC/patch.diff || { echo "RESULT $ID patch-does-not-apply-to-repo"; exit 1; }
for c in $CHECKS; do
	cd /verif && bin/check $c quick > /tmp/tryseed.$$.$c.out 2>&1; rc=$?
	nv=$(grep -ac '^VIOLATION' /tmp/tryseed.$$.$c.out)
	echo "check $c: exit=$rc violations=$nv $(grep -a '^VIOLATION' /tmp/tryseed.$$.$c.out | head -2 | cut -c1-220 | tr '\n' ' ')"
	[ $rc -eq 2 ] && tail -5 /tmp/tryseed.$$.$c.out | cut -c1-300
	rm -f /tmp/tryseed.$$.$c.out
done
git -C /repo checkout -- .
echo "RESULT $ID suite=$SUITE demo_with=$DEMOWITH demo_without=$DEMOWITHOUT"
