package props

import (
	"bytes"
	"encoding/json"
	"fmt"
	"math"
	"reflect"
	"sort"
	"strconv"
	"strings"
	"time"
	"unicode/utf8"

	"github.com/philpearl/plenc/plenccodec"

	"verif/mc"
	"verif/ref"
)

func init() {
	register(&mc.Prop{
		ID: "C13",
		Rule: "every type-in-position of the universe (default configuration) x boundary values with finite floats: the Descriptor is taken three ways (directly; marshalled and unmarshalled through plenc itself; through encoding/json), Marshal(v) is walked with each and the JSON outputter. " +
			"Oracle: no error; valid JSON; the tokenised document equals the reference JSON model of v (struct objects with omitted fields absent, arrays element for element, string-keyed maps as objects, other maps as key/value lists, pointers as their target, RFC 3339 times, exact numbers); the three outputs are byte-identical. non-trivial = non-zero value of a type containing a struct, slice or map",
		Assumptions: []string{"default configuration only: a Descriptor does not record the ProtoCompatible switches, so descriptor-driven decoding of the other configurations' bytes is not claimed",
			"negative values in flat-encoded fields narrower than 64 bits are excluded (documented caveat of FieldTypeFlatInt)"},
		Work: func(c *mc.Ctx) {
			if c.Owns(0) {
				c13BQTimestamp(c)
			}
			enumItemsCfg(c, ref.Universe(c.Tier), func(*ref.T) []ref.Cfg { return []ref.Cfg{{}} }, c13Case)
		},
		Post: func(a *mc.Agg) []string {
			return needDims(a, "pos:top", "pos:field", "pos:elem", "pos:mapval", "pos:mapkey", "desc:plenc-roundtrip", "desc:json-roundtrip", "bq-timestamp")
		},
	})
}

// jtok is a generic parsed JSON value that keeps member order and duplicates.
type jtok struct {
	kind  string // obj arr str num bool null
	s     string
	keys  []string
	elems []jtok
}

func parseJSON(doc []byte) (jtok, error) {
	if !json.Valid(doc) {
		return jtok{}, fmt.Errorf("not valid JSON")
	}
	dec := json.NewDecoder(bytes.NewReader(doc))
	dec.UseNumber()
	v, err := parseJ(dec)
	if err != nil {
		return v, err
	}
	if _, err := dec.Token(); err == nil {
		return v, fmt.Errorf("trailing tokens")
	}
	return v, nil
}

func parseJ(dec *json.Decoder) (jtok, error) {
	tok, err := dec.Token()
	if err != nil {
		return jtok{}, err
	}
	switch t := tok.(type) {
	case json.Delim:
		if t == '[' {
			a := jtok{kind: "arr"}
			for dec.More() {
				e, err := parseJ(dec)
				if err != nil {
					return a, err
				}
				a.elems = append(a.elems, e)
			}
			_, err := dec.Token()
			return a, err
		}
		o := jtok{kind: "obj"}
		for dec.More() {
			k, err := dec.Token()
			if err != nil {
				return o, err
			}
			ks, _ := k.(string)
			e, err := parseJ(dec)
			if err != nil {
				return o, err
			}
			o.keys = append(o.keys, ks)
			o.elems = append(o.elems, e)
		}
		_, err := dec.Token()
		return o, err
	case json.Number:
		return jtok{kind: "num", s: string(t)}, nil
	case string:
		return jtok{kind: "str", s: t}, nil
	case bool:
		return jtok{kind: "bool", s: strconv.FormatBool(t)}, nil
	}
	return jtok{kind: "null"}, nil
}

// matchJM compares the parsed document with the model; it returns "" or a description.
func matchJM(want ref.JM, got jtok, path string) string {
	bad := func(f string, a ...any) string { return path + ": " + fmt.Sprintf(f, a...) }
	switch want.Kind {
	case "obj":
		if got.kind != "obj" {
			return bad("want object, got %s", got.kind)
		}
		if len(got.keys) != len(want.Keys) {
			return bad("object has %d members %q, want %d %q", len(got.keys), got.keys, len(want.Keys), want.Keys)
		}
		if want.Unorder {
			used := make([]bool, len(got.keys))
			for i, k := range want.Keys {
				found := false
				for j, gk := range got.keys {
					if !used[j] && (gk == k || !utf8.ValidString(k)) && matchJM(want.Elems[i], got.elems[j], "") == "" {
						used[j], found = true, true
						break
					}
				}
				if !found {
					return bad("no member matching %q", k)
				}
			}
			return ""
		}
		for i, k := range want.Keys {
			if got.keys[i] != k && utf8.ValidString(k) {
				return bad("member %d is %q, want %q", i, got.keys[i], k)
			}
			if s := matchJM(want.Elems[i], got.elems[i], path+"."+k); s != "" {
				return s
			}
		}
	case "arr":
		if got.kind != "arr" {
			return bad("want array, got %s", got.kind)
		}
		if len(got.elems) != len(want.Elems) {
			return bad("array has %d elements, want %d", len(got.elems), len(want.Elems))
		}
		if want.Unorder {
			used := make([]bool, len(got.elems))
			for i := range want.Elems {
				found := false
				for j := range got.elems {
					if !used[j] && matchJM(want.Elems[i], got.elems[j], "") == "" {
						used[j], found = true, true
						break
					}
				}
				if !found {
					return bad("no element matching entry %d", i)
				}
			}
			return ""
		}
		for i := range want.Elems {
			if s := matchJM(want.Elems[i], got.elems[i], fmt.Sprintf("%s[%d]", path, i)); s != "" {
				return s
			}
		}
	case "null":
		if got.kind != "null" {
			return bad("want null, got %s %q", got.kind, got.s)
		}
	case "str":
		if got.kind != "str" || (got.s != want.S && utf8.ValidString(want.S)) {
			return bad("want string %q, got %s %q", want.S, got.kind, got.s)
		}
	case "bytes":
		if got.kind != "str" || (utf8.ValidString(want.S) && got.s != want.S) {
			return bad("want bytes-as-string %q, got %s %q", want.S, got.kind, got.s)
		}
	case "int":
		if got.kind != "num" || got.s != strconv.FormatInt(want.I, 10) {
			return bad("want %d, got %s %s", want.I, got.kind, got.s)
		}
	case "uint":
		if got.kind != "num" || got.s != strconv.FormatUint(want.U, 10) {
			return bad("want %d, got %s %s", want.U, got.kind, got.s)
		}
	case "f64":
		f, err := strconv.ParseFloat(got.s, 64)
		if got.kind != "num" || err != nil || math.Float64bits(f) != math.Float64bits(want.F) && !(f == 0 && want.F == 0) {
			return bad("want %v, got %s %s", want.F, got.kind, got.s)
		}
	case "f32":
		f, err := strconv.ParseFloat(got.s, 64)
		if got.kind != "num" || err != nil || float32(f) != float32(want.F) {
			return bad("want %v, got %s %s", float32(want.F), got.kind, got.s)
		}
	case "bool":
		if got.kind != "bool" || got.s != strconv.FormatBool(want.I != 0) {
			return bad("want %v, got %s %s", want.I != 0, got.kind, got.s)
		}
	case "time":
		if y := want.T.UTC().Year(); y < 0 || y > 9999 {
			// outside RFC 3339's four-digit years the statement cannot be met literally: any JSON
			// string is accepted (the document must still be valid and everything around it right)
			if got.kind != "str" {
				return bad("want a string for time %s, got %s %q", want.T.UTC().Format(time.RFC3339Nano), got.kind, got.s)
			}
			return ""
		}
		tm, err := time.Parse(time.RFC3339Nano, got.s)
		if got.kind != "str" || err != nil || !tm.Equal(want.T) {
			return bad("want time %s, got %s %q", want.T.Format(time.RFC3339Nano), got.kind, got.s)
		}
	}
	return ""
}

var pathNumRe = strings.NewReplacer("0", "", "1", "", "2", "", "3", "", "4", "", "5", "", "6", "", "7", "", "8", "", "9", "")

func c13Case(c *mc.Ctx, cfg ref.Cfg, it ref.Item, v ref.V, vs string, undoc string) {
	t := it.T
	if t.K == ref.KPtr && v.Nil {
		return // a top-level nil pointer encodes to nothing (C01's ledgered limitation)
	}
	if undoc != "" || ref.HasNonFinite(t, v) || ref.FlatNegative(t, "", v) || ref.NestedAbsent(t, v) {
		return
	}
	c.Dim("pos:" + it.Pos)
	pre := fmt.Sprintf("%s|%s|", it.Pos, t)
	if t.Contains(func(x *ref.T) bool {
		if x.K != ref.KStruct {
			return false
		}
		for _, f := range x.Fields {
			if f.Opt == "proto" {
				return true
			}
		}
		return false
	}) {
		pre = "protoform|" + pre
	}
	if vs != ref.Str(t, ref.Zero(t)) && t.Contains(func(x *ref.T) bool { return x.K == ref.KStruct || x.K == ref.KSlice || x.K == ref.KMap }) {
		c.NonTrivial()
	}
	c.Guard(pre, func() {
		p := NewPlenc(cfg)
		rv := ref.ToReflect(t, v)
		data, err := p.Marshal(nil, rv.Addr().Interface())
		if err != nil {
			return
		}
		codec, err := p.CodecForType(t.Reflect())
		if err != nil {
			return
		}
		d := codec.Descriptor()
		walk := func(d *plenccodec.Descriptor) ([]byte, error) {
			var j plenccodec.JSONOutput
			c.Ops(1)
			if err := d.Read(&j, data); err != nil {
				return nil, err
			}
			return append([]byte(nil), j.Done()...), nil
		}
		out, err := walk(&d)
		if err != nil {
			c.Outcome("walk-error")
			c.Violation(pre+"descriptor-read-error:"+mc.PanicClass(err.Error()), fmt.Sprintf("value %s data %s: %v", vs, hx(data), err))
			return
		}
		tok, err := parseJSON(out)
		if err != nil {
			c.Outcome("invalid-json")
			c.Violation(pre+"invalid-json", fmt.Sprintf("value %s -> %q: %v", vs, out, err))
			return
		}
		want := ref.JSONModel(cfg, t, "", v)
		if s := matchJM(want, tok, ""); s != "" {
			c.Outcome("content-differs")
			c.Violation(pre+"json-differs:"+pathNumRe.Replace(mc.PanicClass(s)), fmt.Sprintf("value %s -> %q: %s", vs, out, s))
			return
		}
		// the descriptor restored through plenc itself and through encoding/json must behave identically
		var viaPlenc plenccodec.Descriptor
		db, err := p.Marshal(nil, &d)
		if err == nil {
			err = p.Unmarshal(db, &viaPlenc)
		}
		if err != nil {
			c.Violation(pre+"descriptor-plenc-roundtrip-error", err.Error())
			return
		}
		c.Dim("desc:plenc-roundtrip")
		if o2, err := walk(&viaPlenc); err != nil || !bytes.Equal(o2, out) {
			c.Violation(pre+"output-differs-with-descriptor-restored-by-plenc", fmt.Sprintf("value %s: direct %q restored %q err %v", vs, out, o2, err))
			return
		}
		var viaJSON plenccodec.Descriptor
		jb, err := json.Marshal(&d)
		if err == nil {
			err = json.Unmarshal(jb, &viaJSON)
		}
		if err != nil {
			c.Violation(pre+"descriptor-json-roundtrip-error", err.Error())
			return
		}
		c.Dim("desc:json-roundtrip")
		if o3, err := walk(&viaJSON); err != nil || !bytes.Equal(o3, out) {
			c.Violation(pre+"output-differs-with-descriptor-restored-by-json", fmt.Sprintf("value %s: direct %q restored %q err %v", vs, out, o3, err))
			return
		}
		c.Outcome("ok")
		if c.WantSample() {
			c.Sample(map[string]string{"type": t.String(), "value": vs, "json": string(out)})
		}
	})
}

var _ = sort.Strings

// c13BQTimestamp: the shipped BQTimestampCodec (a flat microsecond count whose Descriptor says
// FlatInt + Timestamp) registered under the tag name the README uses; rendered through the
// Descriptor it must give the RFC 3339 form of the instant at microsecond precision, whichever
// way the Descriptor was obtained.
func c13BQTimestamp(c *mc.Ctx) {
	type inner struct {
		T time.Time `plenc:"1,flattime"`
		N int       `plenc:"2"`
	}
	type outer struct {
		T time.Time        `plenc:"1,flattime" json:"stamp"`
		I inner            `plenc:"2"`
		P *inner           `plenc:"3"`
		L []inner          `plenc:"4"`
		M map[string]inner `plenc:"5"`
		Z string           `plenc:"9"`
	}
	times := []time.Time{time.Unix(1600000000, 123456000).UTC(), time.Unix(0, 1000).UTC(), time.Unix(-1, 999999000).UTC(), time.Unix(253402300799, 999999000).UTC(),
		time.Unix(1, 0).UTC(), time.Date(1, 1, 1, 0, 0, 0, 1000, time.UTC), time.Unix(1700000000, 999000).In(time.FixedZone("x", 3600))}
	for ti, tm := range times {
		if !c.Begin(fmt.Sprintf(`{"set":"bq-timestamp","time":%q}`, tm.Format(time.RFC3339Nano))) {
			continue
		}
		c.AddEvals(1)
		c.Count("states", 1)
		c.Dim("bq-timestamp")
		c.NonTrivial()
		pre := "bq-timestamp|"
		c.Guard(pre, func() {
			p := NewPlenc(ref.Cfg{})
			p.RegisterCodecWithTag(reflect.TypeOf(time.Time{}), "flattime", plenccodec.BQTimestampCodec{})
			in := inner{T: tm, N: ti}
			v := outer{T: tm, I: in, P: &in, L: []inner{in, {N: 1}}, M: map[string]inner{"k": in}, Z: "end"}
			data, err := p.Marshal(nil, &v)
			if err != nil {
				c.Violation(pre+"marshal-error", err.Error())
				return
			}
			var back outer
			if err := p.Unmarshal(data, &back); err != nil || !back.T.Equal(tm.Truncate(time.Microsecond)) {
				c.Violation(pre+"typed-decode-differs", fmt.Sprintf("%v %v", back.T, err))
				return
			}
			codec, err := p.CodecForType(reflect.TypeOf(outer{}))
			if err != nil {
				c.Violation(pre+"codec-error", err.Error())
				return
			}
			d := codec.Descriptor()
			if len(d.Elements) < 1 || d.Elements[0].Type != plenccodec.FieldTypeFlatInt || d.Elements[0].LogicalType != plenccodec.LogicalTypeTimestamp || d.Elements[0].Name != "stamp" {
				c.Violation(pre+"descriptor-of-timestamp-field", fmt.Sprintf("%+v", d.Elements[0]))
				return
			}
			descs := map[string]plenccodec.Descriptor{"direct": d}
			if pd, err := p.Marshal(nil, &d); err == nil {
				var d2 plenccodec.Descriptor
				if p.Unmarshal(pd, &d2) == nil {
					descs["via-plenc"] = d2
				}
			}
			if jd, err := json.Marshal(&d); err == nil {
				var d3 plenccodec.Descriptor
				if json.Unmarshal(jd, &d3) == nil {
					descs["via-json"] = d3
				}
			}
			if len(descs) != 3 {
				c.Violation(pre+"descriptor-not-serialisable", "")
				return
			}
			want := tm.UTC().Truncate(time.Microsecond)
			var first string
			for how, dd := range descs {
				var j plenccodec.JSONOutput
				if err := dd.Read(&j, data); err != nil {
					c.Violation(pre+"descriptor-read-error:"+how, err.Error())
					return
				}
				doc := j.Done()
				var parsed struct {
					Stamp string `json:"stamp"`
					I, P  struct{ T string }
					L     []struct{ T string }
					M     map[string]struct{ T string }
					Z     string
				}
				if err := json.Unmarshal(doc, &parsed); err != nil {
					c.Violation(pre+"invalid-json:"+how, err.Error()+": "+string(doc))
					return
				}
				for where, s := range map[string]string{"top": parsed.Stamp, "nested": parsed.I.T, "pointer": parsed.P.T, "slice": parsed.L[0].T, "map": parsed.M["k"].T} {
					got, err := time.Parse(time.RFC3339Nano, s)
					if err != nil || !got.Equal(want) {
						c.Violation(pre+"timestamp-rendered-wrongly:"+where, fmt.Sprintf("descriptor %s: %q for %s (%v)", how, s, want.Format(time.RFC3339Nano), err))
						return
					}
				}
				if parsed.Z != "end" || len(parsed.L) != 2 {
					c.Violation(pre+"surrounding-fields-wrong:"+how, string(doc))
					return
				}
				if first == "" {
					first = string(doc)
				} else if first != string(doc) {
					c.Violation(pre+"output-differs-with-restored-descriptor:"+how, fmt.Sprintf("%s vs %s", first, doc))
					return
				}
			}
			c.Ops(6)
			c.Outcome("ok")
		})
	}
}
