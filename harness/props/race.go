package props

import (
	"fmt"
	"os"
	"os/exec"
	"path/filepath"
	"regexp"
	"sort"
	"strconv"
	"strings"
	"sync"

	"github.com/philpearl/plenc"

	"verif/mc"
)

// racePass is the complementary E5 pass (DESIGN §4): the same thread bodies as
// the scheduled scenarios, free-running under the race detector in a separate
// binary built WITHOUT the overlay. It only closes the hole a cooperative
// scheduler has (its hand-offs are happens-before edges); it is not exhaustive.
func racePassSub(scenarios func(tier string) []scenario) func(args []string) int {
	return func(args []string) int {
		tier := args[0]
		iters, _ := strconv.Atoi(args[1])
		bad := 0
		for _, sc := range scenarios(tier) {
			for _, o := range sc.warm {
				o.run(NewPlenc(sc.cfg))
			}
			want := make([][]string, len(sc.threads))
			for i, ops := range sc.threads {
				want[i] = seqSpecCfg(sc.cfg, ops)
			}
			for it := 0; it < iters; it++ {
				p := NewPlenc(sc.cfg)
				for _, o := range sc.warm {
					o.run(p)
				}
				got := make([][]string, len(sc.threads))
				var wg sync.WaitGroup
				start := make(chan struct{})
				for i, ops := range sc.threads {
					i, ops := i, ops
					got[i] = make([]string, len(ops))
					wg.Add(1)
					go func() {
						defer wg.Done()
						defer func() {
							if r := recover(); r != nil {
								got[i][0] = "panic: " + fmt.Sprint(r)
							}
						}()
						<-start
						for k, o := range ops {
							got[i][k] = o.run(p)
						}
					}()
				}
				close(start)
				wg.Wait()
				for i := range want {
					for k := range want[i] {
						if got[i][k] != want[i][k] && bad < 20 {
							bad++
							fmt.Printf("FREE-RUN-MISMATCH\t%s\t%s\t%s\t%s\n", sc.family, sc.threads[i][k].name, trunc200(got[i][k]), trunc200(want[i][k]))
						}
					}
				}
			}
		}
		fmt.Printf("RACEPASS-DONE iterations=%d scenarios=%d\n", iters, len(scenarios(tier)))
		return 0
	}
}

var _ = plenc.Marshal

var raceFrameRe = regexp.MustCompile(`(?m)^\s+(github\.com/philpearl/plenc[^\s(]*)\(`)

// raceAux runs the race binary (path in VERIF_RACE_BIN) and turns reports into violations.
func raceAux(prop string) func(tier string) ([]*mc.VRec, map[string]any, []string) {
	return func(tier string) ([]*mc.VRec, map[string]any, []string) {
		bin := os.Getenv("VERIF_RACE_BIN")
		if bin == "" {
			return nil, map[string]any{"race_pass": "skipped: VERIF_RACE_BIN not set"}, nil
		}
		iters := 150
		if tier == "thorough" {
			iters = 3000
		}
		dir := filepath.Join(mc.OutDir, ".build", "run")
		os.MkdirAll(dir, 0o755)
		logBase := filepath.Join(dir, fmt.Sprintf("race.%s.%d", prop, os.Getpid()))
		var viols []*mc.VRec
		total := 0
		var errs []string
		seen := map[string]*mc.VRec{}
		for _, procs := range []string{"2", "4", "16"} {
			cmd := exec.Command(bin, "-sub:racepass-"+prop, tier, strconv.Itoa(iters))
			cmd.Env = append(os.Environ(), "GOMAXPROCS="+procs, "GORACE=halt_on_error=0 log_path="+logBase)
			out, err := cmd.CombinedOutput()
			if !strings.Contains(string(out), "RACEPASS-DONE") {
				errs = append(errs, fmt.Sprintf("race pass (GOMAXPROCS=%s) did not complete: %v: %s", procs, err, tail(string(out), 1500)))
				continue
			}
			total += iters
			for _, line := range strings.Split(string(out), "\n") {
				if strings.HasPrefix(line, "FREE-RUN-MISMATCH\t") {
					f := strings.Split(line, "\t")
					sig := "free-run|" + f[1] + "|result-differs-from-sequential:" + f[2]
					if seen[sig] == nil {
						seen[sig] = &mc.VRec{Sig: sig, Count: 0, Seq: -1, Desc: fmt.Sprintf(`{"pass":"free-running","op":%q}`, f[2]), Detail: "got " + f[3] + " want " + f[4]}
						viols = append(viols, seen[sig])
					}
					seen[sig].Count++
				}
			}
			logs, _ := filepath.Glob(logBase + ".*")
			for _, lf := range logs {
				b, _ := os.ReadFile(lf)
				os.Remove(lf)
				for _, rep := range strings.Split(string(b), "==================") {
					if !strings.Contains(rep, "WARNING: DATA RACE") {
						continue
					}
					var frames []string
					for _, m := range raceFrameRe.FindAllStringSubmatch(rep, -1) {
						f := strings.TrimPrefix(m[1], "github.com/philpearl/plenc")
						frames = append(frames, strings.TrimPrefix(f, "/"))
					}
					// signature: the innermost plenc frame of each of the two accesses
					parts := strings.Split(rep, "Previous ")
					sigFrames := []string{"?", "?"}
					for i := 0; i < 2 && i < len(parts); i++ {
						if m := raceFrameRe.FindStringSubmatch(parts[i]); m != nil {
							sigFrames[i] = strings.TrimPrefix(strings.TrimPrefix(m[1], "github.com/philpearl/plenc"), "/")
						}
					}
					sort.Strings(sigFrames)
					sig := "data-race|" + sigFrames[0] + "|" + sigFrames[1]
					if seen[sig] == nil {
						seen[sig] = &mc.VRec{Sig: sig, Seq: -1, Desc: `{"pass":"free-running -race"}`, Detail: tail(rep, 2500)}
						viols = append(viols, seen[sig])
					}
					seen[sig].Count++
				}
			}
		}
		reports := 0
		for _, v := range viols {
			reports += int(v.Count)
		}
		info := map[string]any{"race_pass": map[string]any{"iterations_per_scenario": total, "gomaxprocs": []int{2, 4, 16}, "reports": reports,
			"note": "complementary free-running pass under the race detector; not part of the exhaustive claim"}}
		return viols, info, errs
	}
}

func tail(s string, n int) string {
	if len(s) > n {
		return "…" + s[len(s)-n:]
	}
	return s
}
