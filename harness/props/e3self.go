package props

import (
	"fmt"
	"sort"
	"strings"

	"verif/mc"
	"verif/sched"
	"verif/vatomic"
	"verif/vsync"
)

// The explorer checks itself on every C07/C19 run: small synthetic programs over the
// same shims the overlay puts under plenc, whose final states DO depend on the schedule.
// For each program the set of distinct final states found by
//   (a) the plain depth-first enumeration of every interleaving (no reduction),
//   (b) the sleep-set enumeration (one representative per class of commuting reorderings),
//   (c) iterative preemption bounding at its largest bound
// must be identical to (a), and (a) must equal the set written down by hand where given.
// A mismatch is a machinery error: nothing the scheduler says can then be believed.

type e3prog struct {
	name   string
	mk     func() (bodies []func(), final func() string)
	expect []string // nil: only (a)==(b) is demanded
}

func e3Programs() []e3prog {
	return []e3prog{
		{name: "lost-update(2x load;store)", expect: []string{"1", "2"}, mk: func() ([]func(), func() string) {
			var x int64
			inc := func() { v := vatomic.LoadInt64(&x); vatomic.StoreInt64(&x, v+1) }
			return []func(){inc, inc}, func() string { return fmt.Sprint(x) }
		}},
		{name: "lost-update(3 threads)", expect: []string{"1", "2", "3"}, mk: func() ([]func(), func() string) {
			var x int64
			inc := func() { v := vatomic.LoadInt64(&x); vatomic.StoreInt64(&x, v+1) }
			return []func(){inc, inc, inc}, func() string { return fmt.Sprint(x) }
		}},
		{name: "two-counters-independent+flag", mk: func() ([]func(), func() string) {
			// operations on a and b commute; the flag does not
			var a, b, f int64
			var seenA, seenB int64
			return []func(){
					func() { vatomic.AddInt64(&a, 1); vatomic.StoreInt64(&f, 1); seenB = vatomic.LoadInt64(&b) },
					func() { vatomic.AddInt64(&b, 1); seenA = vatomic.LoadInt64(&a); vatomic.CompareAndSwapInt64(&f, 1, 2) },
				}, func() string {
					return fmt.Sprint(a, b, f, seenA, seenB)
				}
		}},
		{name: "map-loadorstore-winners", mk: func() ([]func(), func() string) {
			var m vsync.Map
			var r [3]string
			th := func(id int, k1, k2 string) func() {
				return func() {
					v, _ := m.LoadOrStore(k1, id)
					w, ok := m.Load(k2)
					r[id] = fmt.Sprint(v, w, ok)
				}
			}
			return []func(){th(0, "a", "b"), th(1, "b", "a"), th(2, "a", "a")}, func() string { return strings.Join(r[:], ";") }
		}},
		{name: "mutex-order-deadlock", mk: func() ([]func(), func() string) {
			var a, b vsync.Mutex
			var log []int
			return []func(){
				func() { a.Lock(); b.Lock(); log = append(log, 0); b.Unlock(); a.Unlock() },
				func() { b.Lock(); a.Lock(); log = append(log, 1); a.Unlock(); b.Unlock() },
			}, func() string { return fmt.Sprint(log) }
		}},
		{name: "once+flag", mk: func() ([]func(), func() string) {
			var o vsync.Once
			var who, f int64
			th := func(id int64) func() {
				return func() {
					o.Do(func() { who = id; vatomic.AddInt64(&f, 10) })
					vatomic.AddInt64(&f, id)
				}
			}
			var seen int64
			return []func(){th(1), th(2), func() { seen = vatomic.LoadInt64(&f) }}, func() string { return fmt.Sprint(who, f, seen) }
		}},
		{name: "rwmutex-readers-writer", mk: func() ([]func(), func() string) {
			var mu vsync.RWMutex
			var v int
			var r [2]int
			rd := func(i int) func() { return func() { mu.RLock(); r[i] = v; mu.RUnlock() } }
			return []func(){rd(0), func() {
				mu.Lock()
				v++
				mu.Unlock()
				mu.Lock()
				v++
				mu.Unlock()
			}, rd(1)}, func() string { return fmt.Sprint(r, v) }
		}},
		{name: "pool-reuse-choice", mk: func() ([]func(), func() string) {
			n := 0
			p := &vsync.Pool{New: func() any { n++; x := n * 100; return &x }}
			var r [2]int
			th := func(i int) func() {
				return func() {
					x := p.Get().(*int)
					*x++
					r[i] = *x
					p.Put(x)
				}
			}
			return []func(){th(0), th(1)}, func() string { return fmt.Sprint(r, n) }
		}},
		{name: "cas-race(3 threads)", mk: func() ([]func(), func() string) {
			var x, w int64
			wk := func(id int64) func() {
				return func() {
					if !vatomic.CompareAndSwapInt64(&x, 0, id) {
						vatomic.AddInt64(&x, 10*id)
					}
				}
			}
			return []func(){wk(1), wk(2), func() { vatomic.CompareAndSwapInt64(&x, 1, 5); w = vatomic.LoadInt64(&x) }}, func() string { return fmt.Sprint(x, w) }
		}},
		{name: "cond-handoff", mk: func() ([]func(), func() string) {
			var mu vsync.Mutex
			cv := vsync.NewCond(&mu)
			ready, got := 0, 0
			var order []int
			cons := func(id int) func() {
				return func() {
					mu.Lock()
					for ready == 0 {
						cv.Wait()
					}
					ready--
					got++
					order = append(order, id)
					mu.Unlock()
				}
			}
			return []func(){cons(1), cons(2), func() {
				mu.Lock()
				ready++
				mu.Unlock()
				cv.Signal()
				mu.Lock()
				ready++
				mu.Unlock()
				cv.Broadcast()
			}}, func() string { return fmt.Sprint(order, got) }
		}},
		{name: "map-range-delete+trylock", mk: func() ([]func(), func() string) {
			var m vsync.Map
			var mu vsync.Mutex
			var r [3]string
			return []func(){
				func() { m.Store("a", 1); m.Store("b", 2); r[0] = fmt.Sprint(mu.TryLock()) },
				func() {
					n := 0
					m.Range(func(k, v any) bool { n += v.(int); return true })
					r[1] = fmt.Sprint(n)
				},
				func() {
					_, ok := m.LoadAndDelete("a")
					mu.Lock()
					r[2] = fmt.Sprint(ok)
					mu.Unlock()
				},
			}, func() string { return strings.Join(r[:], ";") }
		}},
		{name: "publish-then-read(pointer)", mk: func() ([]func(), func() string) {
			// the copy-on-write pattern of the intern table: CAS-free publication, two writers lose one update
			var tbl vatomic.Pointer[[]int]
			add := func(v int) func() {
				return func() {
					old := tbl.Load()
					var nw []int
					if old != nil {
						nw = append(nw, *old...)
					}
					nw = append(nw, v)
					tbl.Store(&nw)
				}
			}
			var seen int
			return []func(){add(1), add(2), func() {
					if t := tbl.Load(); t != nil {
						seen = len(*t)
					}
				}}, func() string {
					t := tbl.Load()
					s := append([]int{}, *t...)
					sort.Ints(s)
					return fmt.Sprint(s, seen)
				}
		}},
	}
}

func e3Outcomes(pr e3prog, mode string, limit int64) (set map[string]bool, execs int64, capped bool, err string) {
	set = map[string]bool{}
	var final func() string
	x := &sched.Explorer{Limit: limit, Bound: -1}
	x.Bodies = func() []func() {
		var bs []func()
		sched.Suspend(func() { bs, final = pr.mk() })
		return bs
	}
	x.Check = func(r sched.Result, id int) {
		o := final()
		if r.Deadlock {
			o = "deadlock " + o
		}
		for _, p := range r.Panics {
			if p != "" {
				o = "panic " + o
			}
		}
		set[o] = true
	}
	switch mode {
	case "full":
		x.Explore()
	case "sleep":
		x.ExploreAll()
	default: // iterative bounding up to the first bound that no execution reaches
		for b := 0; b <= 12; b++ {
			y := &sched.Explorer{Limit: limit, Bound: b, Bodies: x.Bodies, Check: x.Check}
			y.Explore()
			x.Execs += y.Execs
			if y.Capped || y.Error != "" {
				x.Capped, x.Error = y.Capped, y.Error
				break
			}
			if y.MaxDev < b {
				break // the bound no longer restricts anything: every interleaving has been run
			}
		}
	}
	return set, x.Execs, x.Capped, x.Error
}

func keys(m map[string]bool) []string {
	var ks []string
	for k := range m {
		ks = append(ks, k)
	}
	sort.Strings(ks)
	return ks
}

// e3SelfTest validates the reduction and the bounding against plain enumeration.
func e3SelfTest(c *mc.Ctx) {
	if !c.Begin(`{"scenario":"explorer self-test"}`) {
		return
	}
	c.AddEvals(-1)
	c.Dim("scenario:explorer-self-test")
	var total int64
	for _, pr := range e3Programs() {
		full, n1, cap1, e1 := e3Outcomes(pr, "full", 400000)
		sleep, n2, cap2, e2 := e3Outcomes(pr, "sleep", 400000)
		iter, n3, cap3, e3 := e3Outcomes(pr, "iter", 400000)
		total += n1 + n2 + n3
		if e1+e2+e3 != "" || cap1 || cap2 || cap3 {
			c.MachineErr(fmt.Sprintf("explorer self-test %q did not complete: %s %s %s capped=%v/%v/%v", pr.name, e1, e2, e3, cap1, cap2, cap3))
			continue
		}
		fk, sk, ik := strings.Join(keys(full), " | "), strings.Join(keys(sleep), " | "), strings.Join(keys(iter), " | ")
		if fk != sk {
			c.MachineErr(fmt.Sprintf("explorer self-test %q: sleep-set exploration reaches {%s}, plain enumeration {%s}", pr.name, sk, fk))
		}
		if fk != ik {
			c.MachineErr(fmt.Sprintf("explorer self-test %q: iterative bounding reaches {%s}, plain enumeration {%s}", pr.name, ik, fk))
		}
		if pr.expect != nil && fk != strings.Join(pr.expect, " | ") {
			c.MachineErr(fmt.Sprintf("explorer self-test %q: plain enumeration reaches {%s}, by hand {%s}", pr.name, fk, strings.Join(pr.expect, " | ")))
		}
		if len(full) < 2 {
			c.MachineErr(fmt.Sprintf("explorer self-test %q is vacuous: one outcome", pr.name))
		}
		c.Count("selftest_outcomes", int64(len(full)))
		c.Sample(map[string]any{"explorer_self_test": pr.name, "distinct_final_states": len(full), "schedules_plain": n1, "schedules_sleep_sets": n2, "schedules_iterative": n3})
	}
	c.AddEvals(total)
	c.AddNonTrivial(total)
	c.Count("selftest_programs", int64(len(e3Programs())))
	c.Count("schedules", total)
	c.Outcome("self-test-ok")
}
