// ovl generates the instrumentation overlay: for every non-test Go file of the
// plenc module that imports sync or sync/atomic it writes a copy whose import
// paths point at verif/vsync and verif/vatomic, and every function of the library
// packages (plenc, plenccodec, null) gets a verifsched.Yield("<name>") as its first
// statement - a scheduling point at method granularity that is inert unless a
// scenario switches it on - and every loop body a verifsched.Tick() (work counter). All edits stay on their original line, so positions in
// stack traces still match the repository. Also writes overlay.json for `go build -overlay`.
package main

import (
	"encoding/json"
	"fmt"
	"go/ast"
	"go/parser"
	"go/token"
	"os"
	"path/filepath"
	"sort"
	"strings"
)

func main() {
	repo, out := os.Args[1], os.Args[2]
	os.RemoveAll(out)
	os.MkdirAll(out, 0o755)
	replace := map[string]string{}
	n := 0
	err := filepath.Walk(repo, func(path string, info os.FileInfo, err error) error {
		if err != nil {
			return err
		}
		if info.IsDir() {
			if strings.HasPrefix(info.Name(), ".") && path != repo {
				return filepath.SkipDir
			}
			return nil
		}
		if !strings.HasSuffix(path, ".go") || strings.HasSuffix(path, "_test.go") {
			return nil
		}
		src, err := os.ReadFile(path)
		if err != nil {
			return err
		}
		fset := token.NewFileSet()
		f, err := parser.ParseFile(fset, path, src, parser.SkipObjectResolution)
		if err != nil {
			return fmt.Errorf("%s: %v", path, err)
		}
		type edit struct {
			start, end int
			text       string
		}
		var edits []edit
		for _, im := range f.Imports {
			var to, alias string
			switch im.Path.Value {
			case `"sync"`:
				to, alias = `"verif/vsync"`, "sync"
			case `"sync/atomic"`:
				to, alias = `"verif/vatomic"`, "atomic"
			default:
				continue
			}
			text := to
			if im.Name == nil {
				text = alias + " " + to
			}
			edits = append(edits, edit{fset.Position(im.Path.Pos()).Offset, fset.Position(im.Path.End()).Offset, text})
		}
		// method-granularity yield points in the library packages
		switch f.Name.Name {
		case "plenc", "plenccodec", "null":
			ny := 0
			for _, d := range f.Decls {
				fd, ok := d.(*ast.FuncDecl)
				if !ok || fd.Body == nil || fd.Name.Name == "init" {
					continue
				}
				name := fd.Name.Name
				if fd.Recv != nil && len(fd.Recv.List) == 1 {
					t := fd.Recv.List[0].Type
					if st, ok := t.(*ast.StarExpr); ok {
						t = st.X
					}
					if ix, ok := t.(*ast.IndexExpr); ok {
						t = ix.X
					}
					if id, ok := t.(*ast.Ident); ok {
						name = id.Name + "." + name
					}
				}
				at := fset.Position(fd.Body.Lbrace).Offset + 1
				edits = append(edits, edit{at, at, fmt.Sprintf("verifsched.Yield(%q);", f.Name.Name+"."+name)})
				ny++
				// every loop iteration counts as one unit of work (C04's "terminates promptly" oracle)
				ast.Inspect(fd.Body, func(n ast.Node) bool {
					var body *ast.BlockStmt
					switch l := n.(type) {
					case *ast.ForStmt:
						body = l.Body
					case *ast.RangeStmt:
						body = l.Body
					}
					if body != nil {
						at := fset.Position(body.Lbrace).Offset + 1
						edits = append(edits, edit{at, at, "verifsched.Tick();"})
					}
					return true
				})
			}
			if ny > 0 {
				at := fset.Position(f.Name.End()).Offset
				edits = append(edits, edit{at, at, `; import verifsched "verif/sched"`})
			}
		}
		if len(edits) == 0 {
			return nil
		}
		sort.Slice(edits, func(i, j int) bool { return edits[i].start < edits[j].start })
		b := src
		for i := len(edits) - 1; i >= 0; i-- {
			e := edits[i]
			b = append(append(append([]byte(nil), b[:e.start]...), e.text...), b[e.end:]...)
		}
		rel, _ := filepath.Rel(repo, path)
		dst := filepath.Join(out, strings.ReplaceAll(rel, string(filepath.Separator), "__"))
		if err := os.WriteFile(dst, b, 0o644); err != nil {
			return err
		}
		replace[path] = dst
		n++
		return nil
	})
	if err != nil {
		fmt.Fprintln(os.Stderr, "ovl:", err)
		os.Exit(1)
	}
	j, _ := json.MarshalIndent(map[string]any{"Replace": replace}, "", " ")
	if err := os.WriteFile(filepath.Join(out, "overlay.json"), j, 0o644); err != nil {
		fmt.Fprintln(os.Stderr, "ovl:", err)
		os.Exit(1)
	}
	fmt.Printf("overlay: %d files instrumented\n", n)
}
