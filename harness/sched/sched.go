// Package sched is a cooperative scheduler that owns every synchronisation
// operation of the code under test (through the vsync/vatomic shims) and lets an
// explorer decide, at each such operation, which thread runs next and what the
// environment answers (sync.Pool reuse). Exactly one thread runs at a time.
package sched

import (
	"fmt"
	"runtime"
	"runtime/debug"
	"strings"
	"sync"
	"time"
	"unsafe"
)

// PointRec records one decision point of an execution.
type PointRec struct {
	Kind    string // operation about to be performed by the chosen alternative's thread, or env kind
	Alts    int    // number of alternatives
	Chosen  int    // index chosen
	Cost    int    // deviation cost of the chosen alternative (0 for the default)
	AltCost []int  // deviation cost of every alternative
	Env     bool   // environment answer rather than a thread choice
	Thread  int    // thread that runs after this decision (for env: the asking thread)
}

// Result is what one execution produced.
type Result struct {
	Points    []PointRec
	Choices   []int
	Deadlock  bool
	Panics    []string // per thread, "" when none
	Steps     int
	Diverged  string // non-empty when a replayed prefix did not fit (hard error)
	Abandoned bool   // the chooser gave up (sleep-set blocked)
	Ops       []string
	StuckInfo string
}

// OpSig identifies the operation a parked thread is about to perform, for the
// independence relation of the partial-order reduction.
type OpSig struct {
	Obj  any  // the synchronisation object (nil: purely thread-local step, e.g. thread start)
	Key  any  // sub-object (sync.Map key); nil = the whole object
	Read bool // does not modify the object
}

// Independent reports whether two pending operations commute.
func Independent(a, b OpSig) bool {
	if a.Obj == nil || b.Obj == nil {
		return true // purely thread-local step (thread start)
	}
	if a.Obj == Unknown || b.Obj == Unknown {
		return false
	}
	if a.Obj != b.Obj {
		return true
	}
	if a.Read && b.Read {
		return true
	}
	if a.Key != nil && b.Key != nil && a.Key != b.Key {
		return true
	}
	return false
}

// Alt is one alternative at a decision point.
type Alt struct {
	Thread int
	Op     OpSig
	Cost   int
}

type thread struct {
	op      OpSig
	id      int
	wake    chan struct{}
	body    func()
	done    bool
	started bool
	can     func() bool // enabledness of the pending operation
	kind    string
	panicV  string
}

// Exec is one controlled execution.
type Exec struct {
	chooser func(i int, alts []Alt, env bool) int
	threads []*thread
	yield   chan int // thread id that yielded (or finished)
	running int
	prefix  []int
	pos     int
	res     Result
	aborted bool
	trace   bool
	live    sync.WaitGroup // thread goroutines that have not exited yet
}

var cur *Exec

// Active reports whether the calling code runs under a controlled execution.
func Active() bool { return cur != nil && !cur.aborted }

// Run executes the thread bodies under the scheduler, following prefix and then
// always taking alternative 0 (keep running the current thread if enabled, else
// the lowest enabled id; environment default answer).
func Run(bodies []func(), prefix []int, trace bool) Result {
	return runExec(&Exec{prefix: prefix, trace: trace}, bodies)
}

// RunWith is Run with every decision delegated to choose (which returns the index of
// the alternative to take, or -1 to abandon the execution: Result.Abandoned is set).
func RunWith(bodies []func(), choose func(i int, alts []Alt, env bool) int) Result {
	return runExec(&Exec{chooser: choose}, bodies)
}

func runExec(e *Exec, bodies []func()) Result {
	e.yield, e.running = make(chan int), -1
	trace := e.trace
	for i, b := range bodies {
		e.threads = append(e.threads, &thread{id: i, wake: make(chan struct{}), body: b, kind: "start"})
	}
	e.res.Panics = make([]string, len(bodies))
	cur = e
	defer func() { cur = nil }()
	e.live.Add(len(e.threads))
	for _, t := range e.threads {
		go e.threadMain(t)
	}
	for {
		// collect enabled threads in canonical order
		var enabled []int
		if e.running >= 0 {
			t := e.threads[e.running]
			if !t.done && (t.can == nil || t.can()) {
				enabled = append(enabled, e.running)
			}
		}
		for _, t := range e.threads {
			if t.id != e.running && !t.done && (t.can == nil || t.can()) {
				enabled = append(enabled, t.id)
			}
		}
		if len(enabled) == 0 {
			all := true
			for _, t := range e.threads {
				all = all && t.done
			}
			if !all {
				e.res.Deadlock = true
				var s []string
				for _, t := range e.threads {
					if !t.done {
						s = append(s, fmt.Sprintf("T%d blocked at %s", t.id, t.kind))
					}
				}
				e.res.StuckInfo = strings.Join(s, "; ")
				e.abort()
			}
			break
		}
		costs := make([]int, len(enabled))
		for i, id := range enabled {
			// switching away from a thread that could continue is a preemption
			if i > 0 && e.running >= 0 && enabled[0] == e.running && id != e.running {
				costs[i] = 1
			}
		}
		var ch int
		if e.chooser != nil {
			alts := make([]Alt, len(enabled))
			for i, id := range enabled {
				alts[i] = Alt{Thread: id, Op: e.threads[id].op, Cost: costs[i]}
			}
			ch = e.chooser(len(e.res.Points), alts, false)
			if ch < 0 {
				e.res.Abandoned = true
				e.abort()
				break
			}
			e.res.Choices = append(e.res.Choices, ch)
			e.res.Points = append(e.res.Points, PointRec{Kind: "sched", Alts: len(enabled), Chosen: ch, Cost: costs[ch], AltCost: costs})
		} else {
			ch = e.choose("sched", len(enabled), costs, false, -1)
		}
		if e.res.Diverged != "" {
			e.abort()
			break
		}
		id := enabled[ch]
		e.res.Points[len(e.res.Points)-1].Thread = id
		e.res.Points[len(e.res.Points)-1].Kind = e.threads[id].kind
		e.running = id
		e.res.Steps++
		if trace {
			e.res.Ops = append(e.res.Ops, fmt.Sprintf("T%d:%s", id, e.threads[id].kind))
		}
		e.threads[id].wake <- struct{}{}
		<-e.yield
		if e.res.Diverged != "" {
			e.abort()
			break
		}
		if e.res.Steps > 200000 {
			e.res.Deadlock = true
			e.res.StuckInfo = "livelock: step limit exceeded"
			e.abort()
			break
		}
	}
	// No goroutine of this execution may outlive it: a straggler unwinding its deferred
	// calls (after an abandoned or deadlocked execution) would otherwise run shims while
	// the next execution is current and corrupt it.
	gone := make(chan struct{})
	go func() { e.live.Wait(); close(gone) }()
	select {
	case <-gone:
	case <-time.After(120 * time.Second):
		e.res.Diverged = "threads of an aborted execution did not exit within 120 s"
	}
	for i, t := range e.threads {
		e.res.Panics[i] = t.panicV
	}
	return e.res
}

func (e *Exec) choose(kind string, alts int, costs []int, env bool, thread int) int {
	ch := 0
	if e.pos < len(e.prefix) {
		ch = e.prefix[e.pos]
		if ch >= alts {
			e.res.Diverged = fmt.Sprintf("replay divergence at point %d: choice %d of %d alternatives (%s)", e.pos, ch, alts, kind)
			ch = 0
		}
	}
	e.pos++
	e.res.Choices = append(e.res.Choices, ch)
	e.res.Points = append(e.res.Points, PointRec{Kind: kind, Alts: alts, Chosen: ch, Cost: costs[ch], AltCost: costs, Env: env, Thread: thread})
	return ch
}

func (e *Exec) threadMain(t *thread) {
	defer e.live.Done()
	<-t.wake
	if e.aborted {
		return
	}
	defer func() {
		if r := recover(); r != nil {
			t.panicV = fmt.Sprintf("%v\n%s", r, debug.Stack())
		}
		t.done = true
		if !e.aborted {
			e.yield <- t.id
		}
	}()
	t.body()
}

// abort releases every parked thread; they exit at their next scheduling point.
func (e *Exec) abort() {
	e.aborted = true
	for _, t := range e.threads {
		if !t.done {
			select {
			case t.wake <- struct{}{}:
			default:
				// the thread has not parked yet or is finishing; it will see aborted
				go func(t *thread) {
					defer func() { recover() }()
					t.wake <- struct{}{}
				}(t)
			}
		}
	}
}

// Point is called by the shims before an operation takes effect. can, when
// non-nil, says whether the operation can proceed (e.g. the mutex is free); the
// thread is not scheduled until it can.
func Point(kind string, can func() bool) { PointOp(kind, OpSig{Obj: Unknown}, can) }

// Unknown is the object of an operation whose target the shim cannot name: it is
// dependent on every other operation (never reduced).
var Unknown = new(int)

// PointOp is Point with the operation's signature (object, key, read-only) for the
// partial-order reduction.
func PointOp(kind string, op OpSig, can func() bool) {
	e := cur
	if e == nil {
		return
	}
	if e.aborted {
		runtime.Goexit()
	}
	t := e.threads[e.running]
	t.kind, t.can, t.op = kind, can, op
	e.yield <- t.id
	<-t.wake
	if e.aborted {
		runtime.Goexit()
	}
	t.can = nil
}

// EnvChoice asks the explorer for an environment answer in [0,n). Answer 0 is
// the default; others cost one deviation.
func EnvChoice(kind string, n int) int {
	e := cur
	if e == nil || e.aborted || n <= 1 {
		return 0
	}
	costs := make([]int, n)
	for i := 1; i < n; i++ {
		costs[i] = 1
	}
	var ch int
	if e.chooser != nil {
		alts := make([]Alt, n)
		for i := range alts {
			alts[i] = Alt{Thread: e.running, Cost: costs[i]}
		}
		ch = e.chooser(len(e.res.Points), alts, true)
		if ch < 0 {
			ch = 0
		}
		e.res.Choices = append(e.res.Choices, ch)
		e.res.Points = append(e.res.Points, PointRec{Kind: kind, Alts: n, Chosen: ch, Cost: costs[ch], AltCost: costs, Env: true, Thread: e.running})
	} else {
		ch = e.choose(kind, n, costs, true, e.running)
	}
	if e.trace {
		e.res.Ops = append(e.res.Ops, fmt.Sprintf("T%d:env %s=%d", e.running, kind, ch))
	}
	return ch
}

// Suspend runs f with the scheduler switched off (pass-through shims); used by
// harness code that must touch the instance between or after executions.
func Suspend(f func()) {
	saved := cur
	cur = nil
	defer func() { cur = saved }()
	f()
}

// YieldsOn switches the method-granularity yield points (inserted by the overlay at the
// start of every library function) on. They carry no object: under the sleep-set search
// they commute with everything (that search assumes data-race freedom), under the
// preemption-bounded search they are ordinary preemption points, which lets it see
// unsynchronised state shared between goroutines when the window spans a method call.
var YieldsOn bool

// Work counts library function entries (every Yield call, active or not): a deterministic
// measure of the work a call performs, used by C04 as its "terminates promptly" oracle.
// Plain increments: only meaningful in single-goroutine use.
var Work uint64

// Tick counts one loop iteration of library code (inserted by the overlay in every loop body).
func Tick() {
	Work++
	if ProfOn && profLast != nil {
		profLast.n++
	}
}

// Work profile (single-threaded users only: C04): which library function the units of work since
// the last ProfReset were spent in. A loop iteration is attributed to the function entered last.
var ProfOn bool

type profSlot struct {
	name  string
	epoch uint32
	n     uint32
}

var (
	prof      [512]profSlot
	profEpoch uint32 = 1
	profLast  *profSlot
)

// ProfReset starts a new measurement.
func ProfReset() { profEpoch++; profLast = nil }

// ProfTop names where most units of work since the last ProfReset were spent: the receiver type
// for methods ("pkg.Type", all its methods together - which method of a type does the work is an
// implementation detail that refactoring moves around), "pkg.func" for plain functions.
func ProfTop() (string, int) {
	agg := map[string]int{}
	for i := range prof {
		if prof[i].epoch != profEpoch {
			continue
		}
		name := prof[i].name
		if strings.Count(name, ".") >= 2 {
			name = name[:strings.LastIndex(name, ".")]
		}
		agg[name] += int(prof[i].n)
	}
	best, n := "", 0
	for name, k := range agg {
		if k > n || (k == n && name < best) {
			best, n = name, k
		}
	}
	return best, n
}

func profHit(name string) {
	h := (uintptr(unsafe.Pointer(unsafe.StringData(name))) >> 3) & 511
	for k := uintptr(0); k < 16; k++ {
		sl := &prof[(h+k)&511]
		if sl.epoch != profEpoch {
			sl.name, sl.epoch, sl.n = name, profEpoch, 1
			profLast = sl
			return
		}
		if unsafe.StringData(sl.name) == unsafe.StringData(name) {
			sl.n++
			profLast = sl
			return
		}
	}
}

// Yield is a scheduling point without a synchronisation object.
func Yield(name string) {
	Work++
	if ProfOn {
		profHit(name)
	}
	if cur == nil || !YieldsOn || cur.aborted {
		return
	}
	PointOp("yield:"+name, OpSig{}, nil)
}
