#!/bin/sh
# Re-runs every saved seeded change (/verif/seeded/*/patch.diff) against the quick check of
# the property it breaks. Nothing is applied to /repo: each job works in its own scratch
# worktree of /repo's HEAD under /tmp (removed afterwards) with its own output directory, so
# evidence of the real tree is never overwritten and jobs can run side by side.
# Expects exit 1 with a VIOLATION line from every check. One line per seed and a summary.
# Relocatable: works from a snapshot of the tree (vp run -- tools/mutation_audit.sh -j 2), so the
# harness sources it builds cannot change under it.
# usage: tools/mutation_audit.sh [-j N] [seed-dir-name ...]
V=$(cd "$(dirname "$0")/.." && pwd)
cd $V || exit 2
J=1
[ "$1" = "-j" ] && { J=$2; shift 2; }
seeds=${*:-$(ls seeded)}
R=/tmp/audit.$$
mkdir -p $R
one() {
	s=$1; d=$V/seeded/$s; W=$R/w.$s; O=$R/o.$s
	[ -s $d/patch.diff ] || return
	id=$(python3 -c "import json;m=json.load(open('$d/meta.json'));print(m.get('audit_property',m['property']))")
	git -C /repo worktree add -q --detach $W HEAD 2>/dev/null || { echo "$s ($id): cannot create worktree" > $R/r.$s; return; }
	if git -C $W apply $d/patch.diff 2>/dev/null; then
		mkdir -p $O
		VERIF_REPO=$W VERIF_OUT=$O $V/bin/check $id quick > $O/out 2>&1; rc=$?
		nv=$(grep -ac '^VIOLATION' $O/out)
		if [ $rc -eq 1 ] && [ $nv -gt 0 ]; then echo "$s ($id): DETECTED ($nv violation signatures)" > $R/r.$s
		else { echo "$s ($id): NOT DETECTED (exit $rc)"; tail -3 $O/out | cut -c1-200; } > $R/r.$s; fi
	else
		echo "$s ($id): NOT DETECTED (patch no longer applies)" > $R/r.$s
	fi
	git -C /repo worktree remove --force $W 2>/dev/null
	rm -rf $O
}
n=0
for s in $seeds; do
	one $s &
	n=$((n+1))
	[ $((n % J)) -eq 0 ] && wait
done
wait
git -C /repo worktree prune
cat $R/r.* 2>/dev/null
ok=$(cat $R/r.* 2>/dev/null | grep -c ': DETECTED'); bad=$(cat $R/r.* 2>/dev/null | grep -c 'NOT DETECTED')
rm -rf $R
echo "mutation audit: $ok detected, $bad not detected"
[ "$bad" -eq 0 ]
