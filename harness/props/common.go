// Package props holds the per-property drivers.
package props

import (
	"encoding/hex"
	"fmt"
	"reflect"

	"github.com/philpearl/plenc"
	"github.com/philpearl/plenc/null"
	"github.com/philpearl/plenc/plenccodec"

	"verif/gen"
	"verif/mc"
	"verif/ref"
)

func init() {
	ref.RegisterNamed("gen.R", reflect.TypeOf(gen.R{}))
	ref.RegisterNamed("gen.A1", reflect.TypeOf(gen.A1{}))
	ref.RegisterNamed("gen.B1", reflect.TypeOf(gen.B1{}))
	ref.RegisterNamed("gen.P", reflect.TypeOf(gen.P{}))
	ref.RegisterNamed("gen.M", reflect.TypeOf(gen.M{}))
	for n, v := range map[string]any{"gen.NBool": gen.NBool(false), "gen.NInt": gen.NInt(0), "gen.NInt8": gen.NInt8(0), "gen.NInt16": gen.NInt16(0), "gen.NInt32": gen.NInt32(0),
		"gen.NInt64": gen.NInt64(0), "gen.NUint": gen.NUint(0), "gen.NUint8": gen.NUint8(0), "gen.NUint16": gen.NUint16(0), "gen.NUint32": gen.NUint32(0), "gen.NUint64": gen.NUint64(0),
		"gen.NFloat32": gen.NFloat32(0), "gen.NFloat64": gen.NFloat64(0), "gen.NString": gen.NString(""),
		"gen.NPtrF32": gen.NPtrF32(nil), "gen.NPtrF64": gen.NPtrF64(nil), "gen.NPtrInt": gen.NPtrInt(nil), "gen.NPtrStr": gen.NPtrStr(nil), "gen.NSliceF64": gen.NSliceF64(nil),
		"gen.NSliceInt": gen.NSliceInt(nil), "gen.NSliceStr": gen.NSliceStr(nil), "gen.NMapSI": gen.NMapSI(nil), "gen.NBytes": gen.NBytes(nil)} {
		ref.RegisterNamed(n, reflect.TypeOf(v))
	}
}

// withRecursive appends the recursive family to a universe.
func withRecursive(items []ref.Item) []ref.Item { return append(items, ref.Recursive()...) }

// All is the registry of property checks.
var All = map[string]*mc.Prop{}

func register(p *mc.Prop) { All[p.ID] = p }

// NewPlenc builds a fresh instance for a configuration with the default and
// null codecs registered.
func NewPlenc(cfg ref.Cfg) *plenc.Plenc {
	p := &plenc.Plenc{ProtoCompatibleTime: cfg.ProtoTime, ProtoCompatibleArrays: cfg.ProtoArrays}
	p.RegisterDefaultCodecs()
	null.AddCodecs(p)
	return p
}

var _ plenccodec.Codec

func hx(b []byte) string {
	if len(b) > 200 {
		return hex.EncodeToString(b[:200]) + fmt.Sprintf("…(%d bytes)", len(b))
	}
	return hex.EncodeToString(b)
}

// desc renders a case description as JSON (kept cheap: built with Sprintf).
func desc(cfg ref.Cfg, it ref.Item, v string, extra string) string {
	return fmt.Sprintf(`{"cfg":%q,"pos":%q,"opt":%q,"base":%q,"type":%q,"value":%q%s}`, cfg.String(), it.Pos, it.Opt, it.Base.String(), it.T.String(), v, extra)
}

// cfgsFor returns the configurations worth running for a type: all four when a
// switch can change its encoding, otherwise default and both.
func cfgsFor(t *ref.T) []ref.Cfg {
	ts, as := ref.CfgSensitive(t)
	if ts || as {
		return ref.Cfgs
	}
	return []ref.Cfg{ref.Cfgs[0], ref.Cfgs[3]}
}

func lvlFor(tier string) int {
	if tier == "thorough" {
		return 3
	}
	return 2
}

// fresh returns a pointer to a new zero value of t.
func fresh(t *ref.T) reflect.Value { return reflect.New(t.Reflect()) }

// badSliceHeader walks a decoded value and reports the first slice whose header is not sane
// (capacity below its length, or elements without a backing array): such a value compares equal
// element by element and corrupts memory on the next append or re-slice.
func badSliceHeader(rv reflect.Value, path string) string {
	switch rv.Kind() {
	case reflect.Ptr, reflect.Interface:
		if !rv.IsNil() {
			return badSliceHeader(rv.Elem(), path+"*")
		}
	case reflect.Struct:
		for i := 0; i < rv.NumField(); i++ {
			if rv.Type().Field(i).PkgPath != "" && rv.Type().Field(i).Type.Kind() != reflect.Slice {
				continue
			}
			if s := badSliceHeader(rv.Field(i), path+"."+rv.Type().Field(i).Name); s != "" {
				return s
			}
		}
	case reflect.Map:
		it := rv.MapRange()
		for it.Next() {
			if s := badSliceHeader(it.Key(), path+"[key]"); s != "" {
				return s
			}
			if s := badSliceHeader(it.Value(), path+"[value]"); s != "" {
				return s
			}
		}
	case reflect.Slice:
		if rv.Cap() < rv.Len() || (rv.Len() > 0 && rv.Pointer() == 0) {
			return fmt.Sprintf("%s: len %d cap %d data %#x", path, rv.Len(), rv.Cap(), rv.Pointer())
		}
		if k := rv.Type().Elem().Kind(); k == reflect.Ptr || k == reflect.Struct || k == reflect.Slice || k == reflect.Map || k == reflect.Interface {
			for i := 0; i < rv.Len(); i++ {
				if s := badSliceHeader(rv.Index(i), fmt.Sprintf("%s[%d]", path, i)); s != "" {
					return s
				}
			}
		}
	}
	return ""
}
