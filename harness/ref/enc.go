package ref

import (
	"bytes"
	"encoding/binary"
	"unicode"
)

// Cfg is a Plenc configuration.
type Cfg struct {
	ProtoTime   bool
	ProtoArrays bool
}

func (c Cfg) String() string {
	switch {
	case c.ProtoTime && c.ProtoArrays:
		return "both"
	case c.ProtoTime:
		return "prototime"
	case c.ProtoArrays:
		return "protoarrays"
	}
	return "default"
}

var Cfgs = []Cfg{{}, {ProtoTime: true}, {ProtoArrays: true}, {ProtoTime: true, ProtoArrays: true}}

// Class is the wire class of a (type, option) under a configuration.
type Class int

const (
	CV   Class = iota // varint, wire type 0
	CF8               // fixed 64, wire type 1
	CL                // length-delimited, wire type 2
	CS                // counted list, wire type 3
	CF4               // fixed 32, wire type 5
	CR                // protobuf repeated form: one wire-type-2 field per element/entry
	CBad              // not encodable (model rejects the definition)
)

func (c Class) WireType() int {
	switch c {
	case CV:
		return 0
	case CF8:
		return 1
	case CL, CR:
		return 2
	case CS:
		return 3
	case CF4:
		return 5
	}
	return 7
}

func isSignedInt(k Kind) bool { return k >= KInt && k <= KInt64 }
func isUint(k Kind) bool      { return k >= KUint && k <= KUint64 }

// rawBytes reports whether a KBytes position is the registered []byte codec
// (rule 5: exact type, no surviving tag option) rather than a packed uint8 slice.
func rawBytes(opt string) bool { return opt == "" || opt == "intern" }

// ClassOf computes the wire class (DESIGN Appendix A rules 4-12).
func ClassOf(cfg Cfg, t *T, opt string) Class {
	switch t.K {
	case KBool, KInt, KInt8, KInt16, KInt32, KInt64, KUint, KUint8, KUint16, KUint32, KUint64, KNullInt, KNullBool:
		return CV
	case KFloat32:
		return CF4
	case KFloat64, KNullFloat:
		return CF8
	case KString, KTime, KStruct, KNullString, KNullTime:
		return CL
	case KBytes:
		return CL // raw bytes, or packed uint8 varints: length-delimited either way
	case KPtr:
		return ClassOf(cfg, t.Elem, opt)
	case KSlice:
		switch ClassOf(cfg, t.Elem, "") {
		case CV, CF4, CF8:
			return CL
		case CL:
			if cfg.ProtoArrays || opt == "proto" {
				return CR
			}
			return CS
		}
		return CBad
	case KMap:
		if opt == "proto" {
			return CR
		}
		return CS
	}
	return CBad
}

// Node is an encoding tree. Exactly one of Lit, Seq, Set is used. Seq children
// appear in order; Set children may appear in any order (map entries). Perm marks
// a Seq whose children a decoder must accept in any order (struct fields).
type Node struct {
	Lit  []byte
	Seq  []*Node
	Set  []*Node
	Perm bool
	n    int
}

func lit(b []byte) *Node { return &Node{Lit: b, n: len(b)} }

func seq(ns ...*Node) *Node {
	n := &Node{Seq: ns}
	for _, c := range ns {
		n.n += c.n
	}
	return n
}

func set(ns []*Node) *Node {
	n := &Node{Set: ns}
	for _, c := range ns {
		n.n += c.n
	}
	return n
}

var empty = lit(nil)

// Len is the encoded length of the node.
func (n *Node) Len() int { return n.n }

// Bytes renders the node with Set children in the order given.
func (n *Node) Bytes() []byte { return n.append(make([]byte, 0, n.n)) }

func (n *Node) append(b []byte) []byte {
	switch {
	case n.Seq != nil:
		for _, c := range n.Seq {
			b = c.append(b)
		}
	case n.Set != nil:
		for _, c := range n.Set {
			b = c.append(b)
		}
	default:
		b = append(b, n.Lit...)
	}
	return b
}

// Match reports whether data is exactly an encoding described by n (Set children
// in any order). It returns the unmatched rest.
func (n *Node) Match(data []byte) (rest []byte, ok bool) {
	switch {
	case n.Seq != nil:
		for _, c := range n.Seq {
			if data, ok = c.Match(data); !ok {
				return nil, false
			}
		}
		return data, true
	case n.Set != nil:
		used := make([]bool, len(n.Set))
		for range n.Set {
			found := false
			for i, c := range n.Set {
				if used[i] {
					continue
				}
				if r, ok := c.Match(data); ok {
					used[i], found, data = true, true, r
					break
				}
			}
			if !found {
				return nil, false
			}
		}
		return data, true
	default:
		if !bytes.HasPrefix(data, n.Lit) {
			return nil, false
		}
		return data[len(n.Lit):], true
	}
}

// MatchExact is Match with nothing left over.
func (n *Node) MatchExact(data []byte) bool {
	rest, ok := n.Match(data)
	return ok && len(rest) == 0
}

// ---------------------------------------------------------------------------
// primitives (independent of plenccore)

func Uvarint(b []byte, v uint64) []byte { return binary.AppendUvarint(b, v) }

func ZigZag(v int64) uint64 { return uint64(v<<1) ^ uint64(v>>63) }

func Tag(index int, wt int) []byte { return Uvarint(nil, uint64(index)<<3|uint64(wt)) }

func signExtend(u uint64, nb int) int64 {
	sh := uint(64 - nb)
	return int64(u<<sh) >> sh
}

func mask(u uint64, nb int) uint64 { return u & (^uint64(0) >> uint(64-nb)) }

// Omit reports whether a plain field (or map key/value, or top-level value)
// holding v is left out of the encoding (rule 3).
func Omit(t *T, v V) bool {
	switch t.K {
	case KBool, KInt, KInt8, KInt16, KInt32, KInt64, KUint, KUint8, KUint16, KUint32, KUint64:
		return mask(v.U, bits(t)) == 0
	case KFloat32:
		return uint32(v.U)&0x7fffffff == 0
	case KFloat64:
		return v.U&^(1<<63) == 0
	case KString:
		return v.S == ""
	case KBytes:
		return v.S == ""
	case KTime:
		return v.Sec == zeroTimeSec && v.Ns == 0
	case KNullInt, KNullBool, KNullFloat, KNullString, KNullTime:
		return v.Nil
	case KPtr:
		return v.Nil
	case KSlice:
		return len(v.E) == 0
	case KMap:
		return v.Nil
	}
	return false
}

func timeBody(cfg Cfg, v V) []byte {
	b := []byte{0x08}
	if cfg.ProtoTime {
		b = Uvarint(b, uint64(v.Sec))
		b = append(b, 0x10)
		b = Uvarint(b, uint64(uint32(v.Ns)))
	} else {
		b = Uvarint(b, ZigZag(v.Sec))
		b = append(b, 0x10)
		b = Uvarint(b, ZigZag(int64(v.Ns)))
	}
	return b
}

// EncBody is the encoding of v without tag or length: what Marshal emits at top
// level for a non-omitted value, and what follows a length prefix.
func EncBody(cfg Cfg, t *T, opt string, v V) *Node {
	switch t.K {
	case KBool:
		if v.U != 0 {
			return lit([]byte{1})
		}
		return lit([]byte{0})
	case KInt, KInt8, KInt16, KInt32, KInt64:
		if opt == "flat" {
			return lit(Uvarint(nil, mask(v.U, bits(t))))
		}
		return lit(Uvarint(nil, ZigZag(signExtend(v.U, bits(t)))))
	case KUint, KUint8, KUint16, KUint32, KUint64:
		return lit(Uvarint(nil, mask(v.U, bits(t))))
	case KFloat32:
		return lit(binary.LittleEndian.AppendUint32(nil, uint32(v.U)))
	case KFloat64, KNullFloat:
		return lit(binary.LittleEndian.AppendUint64(nil, v.U))
	case KString, KNullString:
		return lit([]byte(v.S))
	case KBytes:
		if rawBytes(opt) {
			return lit([]byte(v.S))
		}
		var b []byte
		for i := 0; i < len(v.S); i++ {
			b = Uvarint(b, uint64(v.S[i]))
		}
		return lit(b)
	case KTime:
		return lit(timeBody(cfg, v))
	case KNullTime:
		// the null codec embeds the default time codec whatever the configuration
		return lit(timeBody(Cfg{}, v))
	case KNullInt:
		return lit(Uvarint(nil, ZigZag(int64(v.U))))
	case KNullBool:
		if v.U != 0 {
			return lit([]byte{1})
		}
		return lit([]byte{0})
	case KPtr:
		if v.Nil {
			return empty
		}
		return EncBody(cfg, t.Elem, opt, v.E[0])
	case KSlice:
		switch ClassOf(cfg, t, opt) {
		case CL: // packed
			ns := make([]*Node, 0, len(v.E))
			for _, e := range v.E {
				ns = append(ns, EncBody(cfg, t.Elem, "", e))
			}
			return seq(ns...)
		case CS:
			ns := []*Node{lit(Uvarint(nil, uint64(len(v.E))))}
			for _, e := range v.E {
				b := EncBody(cfg, t.Elem, "", e)
				ns = append(ns, lit(Uvarint(nil, uint64(b.Len()))), b)
			}
			return seq(ns...)
		case CR: // no framing is possible without a tag: bodies are concatenated
			ns := make([]*Node, 0, len(v.E))
			for _, e := range v.E {
				ns = append(ns, EncBody(cfg, t.Elem, "", e))
			}
			return seq(ns...)
		}
	case KMap:
		ents := mapEntries(cfg, t, v)
		framed := make([]*Node, len(ents))
		for i, e := range ents {
			framed[i] = seq(lit(Uvarint(nil, uint64(e.Len()))), e)
		}
		return seq(lit(Uvarint(nil, uint64(len(ents)))), set(framed))
	case KStruct:
		ns := make([]*Node, 0, len(t.Fields))
		for i, f := range t.Fields {
			if !f.Encoded() {
				continue
			}
			ns = append(ns, EncField(cfg, f.T, f.Opt, v.E[i], f.Index))
		}
		n := seq(ns...)
		n.Perm = true
		if n.Seq == nil {
			n.Seq = []*Node{}
		}
		return n
	}
	panic("EncBody: unencodable " + t.String())
}

// Encoded reports whether the struct builder encodes this field at all.
func (f F) Encoded() bool {
	if f.Skip || f.NoTag || f.Raw == "-" {
		return false
	}
	return Exported(f.Name)
}

// Exported is Go's rule: the first rune is an upper-case letter.
func Exported(name string) bool {
	for _, r := range name {
		return unicode.IsUpper(r)
	}
	return false
}

func mapEntries(cfg Cfg, t *T, v V) []*Node {
	var ents []*Node
	for i := 0; i+1 < len(v.E); i += 2 {
		e := seq(EncField(cfg, t.Key, "", v.E[i], 1), EncField(cfg, t.Elem, "", v.E[i+1], 2))
		ents = append(ents, e)
	}
	return ents
}

// EncField is the encoding of a field (struct field, map key or map value) with
// the given index, or nothing when the value is omitted.
func EncField(cfg Cfg, t *T, opt string, v V, index int) *Node {
	if Omit(t, v) {
		return empty
	}
	return encFramed(cfg, t, opt, v, index)
}

// encFramed encodes v with its tag even when a plain field would omit it (pointer
// targets, rule 7).
func encFramed(cfg Cfg, t *T, opt string, v V, index int) *Node {
	if t.K == KPtr {
		if v.Nil {
			return empty // pointer to nil pointer: nothing can be written
		}
		return encFramed(cfg, t.Elem, opt, v.E[0], index)
	}
	cl := ClassOf(cfg, t, opt)
	tag := lit(Tag(index, cl.WireType()))
	switch cl {
	case CV, CF4, CF8, CS:
		return seq(tag, EncBody(cfg, t, opt, v))
	case CL:
		b := EncBody(cfg, t, opt, v)
		return seq(tag, lit(Uvarint(nil, uint64(b.Len()))), b)
	case CR:
		if t.K == KMap {
			ents := mapEntries(cfg, t, v)
			framed := make([]*Node, len(ents))
			for i, e := range ents {
				framed[i] = seq(tag, lit(Uvarint(nil, uint64(e.Len()))), e)
			}
			return set(framed)
		}
		ns := make([]*Node, 0, len(v.E))
		for _, e := range v.E {
			if t.Elem.K == KPtr && ptrChainNil(t.Elem, e) {
				continue // nil pointer elements vanish in the repeated form
			}
			b := EncBody(cfg, t.Elem, "", e)
			ns = append(ns, seq(tag, lit(Uvarint(nil, uint64(b.Len()))), b))
		}
		return seq(ns...)
	}
	panic("encFramed: unencodable " + t.String())
}

func ptrChainNil(t *T, v V) bool {
	for t.K == KPtr {
		if v.Nil {
			return true
		}
		t, v = t.Elem, v.E[0]
	}
	return false
}

// EncTop is what Marshal(nil, &v) must return for a top-level value.
func EncTop(cfg Cfg, t *T, v V) *Node {
	if Omit(t, v) {
		return empty
	}
	return EncBody(cfg, t, "", v)
}
