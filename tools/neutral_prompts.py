#!/usr/bin/env python3
"""Prompts for behaviour-PRESERVING changes (refactorings / optimisations): the checks must stay silent on them.
usage: neutral_prompts.py  -> worktrees /tmp/neutral-<k> and /tmp/neutral-<k>.prompt.txt"""
import subprocess, os
FILES = ["plenccodec/struct.go", "plenccodec/wrapper.go", "plenccodec/map.go", "plenccodec/string.go", "plenccodec/time.go", "plenccodec/json.go",
         "plenccodec/descriptor.go", "plenccodec/output.go", "codec.go + marshal.go", "plenccore/wire.go + plenccore/varints.go", "null/null.go", "cmd/plenctag/main.go",
         "plenccodec/int.go + plenccodec/float.go + plenccodec/bool.go"]
T = '''You are helping evaluate a verification framework for the Go library philpearl/plenc (a protobuf-like serialisation library driven by struct tags). You have your OWN scratch git worktree of the library at /tmp/neutral-@K@ - work ONLY inside that directory (never touch /repo or /verif, and do not read /verif).

Your job: make ONE substantial BEHAVIOUR-PRESERVING change to @FILE@ - the kind of refactoring or optimisation a careful maintainer would merge - so that we can check that the verification framework does NOT raise false alarms on correct code. Aim for 30-80 changed lines; combine several of: extracting or inlining helper functions, restructuring loops, renaming internals, reordering independent statements, replacing manual loops by copy/append idioms, pre-sizing buffers, hoisting invariant computations, splitting a big function, changing an internal data structure (e.g. a slice into a map or back) with identical observable behaviour, adding a correct fast path, rewording comments and error message texts.

It MUST preserve, for every input: the exact bytes Marshal produces; what Unmarshal / Descriptor-driven decoding produce; whether an error is returned (the error TEXT may change, but must stay non-empty); every Descriptor; Size == number of bytes appended; memory safety (no aliasing of caller buffers, no retained scratch state shared between goroutines, no data races); rejection of unsupported types; linear time and memory in the input size; which codec object an instance caches and returns for a type; and for cmd/plenctag the exact output files. Do not change exported API. If in doubt about an edge case (nil vs empty, zero values, truncated or hostile input, re-used destination variables, concurrency), keep the original behaviour exactly.

Then verify: cd /tmp/neutral-@K@ && GOFLAGS=-mod=mod GOPROXY=off GOSUMDB=off GOTOOLCHAIN=local go test -vet=off -count=1 ./...   (TestDescriptor in plenccodec is flaky ~12% because of map order; re-run if only that fails), and also run it with -race once.

DELIVERABLES (inside /tmp/neutral-@K@): the change left applied and uncommitted; patch.diff at the worktree root = `git diff` of the source files you changed; meta.txt: what you changed and why it is behaviour preserving, any edge case you were careful about, and the test commands with outcomes. Do not use git stash. Do not commit. Reply with the contents of meta.txt.
'''
for k, f in enumerate(FILES):
    w = f'/tmp/neutral-{k}'
    if not os.path.isdir(w):
        subprocess.check_call(['git', '-C', '/repo', 'worktree', 'add', '-q', '--detach', w, 'HEAD'])
    open(w + '.prompt.txt', 'w').write(T.replace('@K@', str(k)).replace('@FILE@', f))
print(len(FILES))
