package props

import (
	"bytes"
	"fmt"
	"reflect"
	"time"
	"unsafe"

	"github.com/philpearl/plenc/plenccodec"

	"verif/mc"
	"verif/ref"
)

func init() {
	register(&mc.Prop{
		ID: "C05",
		Rule: "for every (configuration x type-in-position x boundary value) of the universe the codec returned by CodecForType is exercised directly: " +
			"L1 Size==len(Append) for tag nil and 1-, 2- and 5-byte tags; L2 framing of the tagged form; L3 Read(body) consumes len(body); L4 schema-directed walk of Marshal output to its exact end. " +
			"Also the base type's codec under its tag option, and the exported BQTimestampCodec/TimeCompatCodec over the time universe. non-trivial = non-zero value",
		Assumptions: []string{"codecs are driven through the exported Codec interface with pointers obtained from reflect (map values pass the map pointer itself, as Marshal does)"},
		Work:        c05Work,
		Post: func(a *mc.Agg) []string {
			return needDims(a, "class:V", "class:F", "class:L", "class:S", "class:R", "codec:whole", "codec:base", "codec:exported")
		},
	})
}

var lawTags = [][]byte{nil, nil, nil, nil}

func tagsFor(wt int) [][]byte {
	return [][]byte{nil, ref.Tag(1, wt), ref.Tag(16, wt), ref.Tag(1<<25, wt)}
}

func c05Work(c *mc.Ctx) {
	baseDone := map[string]bool{}
	enumItems(c, withRecursive(ref.Universe(c.Tier)), func(c *mc.Ctx, cfg ref.Cfg, it ref.Item, v ref.V, vs string, undoc string) {
		pre := fmt.Sprintf("%s|%s|%s|%s", cfg, it.Pos, it.T, undoc)
		c.Guard(pre, func() {
			p := NewPlenc(cfg)
			codec, err := p.CodecForType(it.T.Reflect())
			if err != nil {
				c.Violation(pre+"codec-error", err.Error())
				return
			}
			c.Dim("codec:whole")
			if vs != ref.Str(it.T, ref.Zero(it.T)) {
				c.NonTrivial()
			}
			ok := codecLaws(c, pre, cfg, codec, it.T, "", v)
			// L4: the complete Marshal output walks to its exact end
			rv := ref.ToReflect(it.T, v)
			data, err := p.Marshal(nil, rv.Addr().Interface())
			c.Ops(1)
			if err != nil {
				c.Violation(pre+"marshal-error", err.Error())
				return
			}
			if ref.ClassOf(cfg, it.T, "") != ref.CR {
				if err := ref.WalkTop(cfg, it.T, data); err != nil {
					c.Violation(pre+"L4-walk:"+mc.PanicClass(err.Error()), fmt.Sprintf("%v in %s", err, hx(data)))
					ok = false
				}
			}
			if ok {
				c.Outcome("ok")
			} else {
				c.Outcome("law-broken")
			}
			if c.WantSample() {
				c.Sample(map[string]string{"cfg": cfg.String(), "type": it.T.String(), "value": vs, "marshal": hx(data)})
			}
		})
		// the base type's own codec under its option, once per (base, option, cfg)
		if it.Pos == "field" && !baseDone[cfg.String()+"|"+it.T.String()] {
			baseDone[cfg.String()+"|"+it.T.String()] = true
			bvals := ref.Values(it.Base, 1)
			key := fmt.Sprintf("%s|base|%s|%s|", cfg, it.Base, it.Opt)
			for _, bv := range bvals {
				c.Guard(key, func() {
					p := NewPlenc(cfg)
					opt := it.Opt
					if opt == "intern" {
						opt = ""
					}
					codec, err := p.CodecForTypeWithTag(it.Base.Reflect(), opt)
					if err != nil {
						c.Violation(key+"codec-error", err.Error())
						return
					}
					if in, ok := codec.(plenccodec.Interner); ok && it.Opt == "intern" {
						codec = in.WithInterning()
					}
					c.Dim("codec:base")
					codecLaws(c, key, cfg, codec, it.Base, it.Opt, bv)
				})
			}
		}
	})
	if c.Owns(0) {
		c05Exported(c)
	}
}

// ptrFor returns the pointer a Codec expects for the value held in rv.
func ptrFor(rv reflect.Value) unsafe.Pointer {
	if rv.Kind() == reflect.Map {
		return rv.UnsafePointer()
	}
	return rv.Addr().UnsafePointer()
}

func classLetter(cl ref.Class) string {
	switch cl {
	case ref.CV:
		return "V"
	case ref.CF4, ref.CF8:
		return "F"
	case ref.CL:
		return "L"
	case ref.CS:
		return "S"
	case ref.CR:
		return "R"
	}
	return "?"
}

// codecLaws checks L1-L3 for one codec and value. It reports violations and
// returns whether all laws held.
func codecLaws(c *mc.Ctx, pre string, cfg ref.Cfg, codec plenccodec.Codec, t *ref.T, opt string, v ref.V) bool {
	ok := true
	rv := ref.ToReflect(t, v)
	ptr := ptrFor(rv)
	cl := ref.ClassOf(cfg, t, opt)
	c.Dim("class:" + classLetter(cl))
	if int(codec.WireType()) != cl.WireType() {
		c.Violation(pre+"wiretype", fmt.Sprintf("codec says %d model says %d", codec.WireType(), cl.WireType()))
		return false
	}
	multi := t.Contains(func(x *ref.T) bool { return x.K == ref.KMap }) // iteration order may differ between calls
	body := codec.Append(nil, ptr, nil)
	c.Ops(1)
	for ti, tag := range tagsFor(cl.WireType()) {
		size := codec.Size(ptr, tag)
		out := codec.Append(nil, ptr, tag)
		c.Ops(2)
		// L1
		if size != len(out) {
			c.Violation(fmt.Sprintf("%sL1-size:tag%d", pre, ti), fmt.Sprintf("Size=%d len(Append)=%d out=%s", size, len(out), hx(out)))
			ok = false
		}
		// Append must append: a prefix is preserved
		pfx := []byte{0xde, 0xad}
		out2 := codec.Append(append([]byte(nil), pfx...), ptr, tag)
		if !bytes.HasPrefix(out2, pfx) || len(out2) != len(out)+2 || (!multi && !bytes.Equal(out2[2:], out)) {
			c.Violation(fmt.Sprintf("%sL2-append-prefix:tag%d", pre, ti), fmt.Sprintf("with prefix %s without %s", hx(out2), hx(out)))
			ok = false
		}
		if tag == nil || multi {
			continue
		}
		// L2 framing
		var want []byte
		switch cl {
		case ref.CL:
			if ptrNil(t, v) {
				want = nil
			} else {
				want = append(append(append([]byte(nil), tag...), ref.Uvarint(nil, uint64(len(body)))...), body...)
			}
		case ref.CV, ref.CF4, ref.CF8, ref.CS:
			if ptrNil(t, v) {
				want = nil
			} else {
				want = append(append([]byte(nil), tag...), body...)
			}
		case ref.CR:
			// one frame per element: checked structurally
			rest := out
			n := 0
			for len(rest) > 0 {
				if !bytes.HasPrefix(rest, tag) {
					c.Violation(fmt.Sprintf("%sL2-repeated-frame:tag%d", pre, ti), hx(out))
					ok = false
					break
				}
				rest = rest[len(tag):]
				l, k := uvar(rest)
				if k <= 0 || uint64(len(rest)-k) < l {
					c.Violation(fmt.Sprintf("%sL2-repeated-length:tag%d", pre, ti), hx(out))
					ok = false
					break
				}
				rest = rest[k+int(l):]
				n++
			}
			continue
		}
		if !bytes.Equal(out, want) {
			c.Violation(fmt.Sprintf("%sL2-framing:tag%d", pre, ti), fmt.Sprintf("Append(tag)=%s want tag+[len]+body=%s", hx(out), hx(want)))
			ok = false
		}
	}
	// L3: reading the body back consumes exactly its length
	if cl != ref.CR && !multi {
		out := reflect.New(t.Reflect())
		n, err := codec.Read(body, out.UnsafePointer(), codec.WireType())
		c.Ops(1)
		if err != nil || n != len(body) {
			c.Violation(pre+"L3-read-consumes", fmt.Sprintf("Read(body %s) = (%d, %v), want (%d, nil)", hx(body), n, err, len(body)))
			ok = false
		}
	}
	return ok
}

func ptrNil(t *ref.T, v ref.V) bool {
	for t.K == ref.KPtr {
		if v.Nil {
			return true
		}
		t, v = t.Elem, v.E[0]
	}
	return false
}

func uvar(b []byte) (uint64, int) {
	var x uint64
	var s uint
	for i, c := range b {
		if i == 10 {
			return 0, -1
		}
		if c < 0x80 {
			return x | uint64(c)<<s, i + 1
		}
		x |= uint64(c&0x7f) << s
		s += 7
	}
	return 0, 0
}

// c05Exported covers codecs that CodecForType never hands out by itself.
func c05Exported(c *mc.Ctx) {
	tt := ref.Leaf(ref.KTime)
	for _, v := range ref.Values(tt, 3) {
		vs := ref.Str(tt, v)
		for name, codec := range map[string]plenccodec.Codec{"BQTimestampCodec": plenccodec.BQTimestampCodec{}, "TimeCompatCodec": plenccodec.TimeCompatCodec{}, "TimeCodec": plenccodec.TimeCodec{}} {
			if !c.Begin(fmt.Sprintf(`{"codec":%q,"value":%q}`, name, vs)) {
				continue
			}
			c.Dim("codec:exported")
			c.NonTrivial()
			pre := "exported|" + name + "|"
			c.Guard(pre, func() {
				tm := ref.ToReflect(tt, v).Interface().(time.Time)
				ptr := unsafe.Pointer(&tm)
				wt := int(codec.WireType())
				body := codec.Append(nil, ptr, nil)
				for ti, tag := range tagsFor(wt) {
					size := codec.Size(ptr, tag)
					out := codec.Append(nil, ptr, tag)
					c.Ops(2)
					if size != len(out) {
						c.Violation(fmt.Sprintf("%sL1-size:tag%d", pre, ti), fmt.Sprintf("time %s: Size=%d len(Append)=%d out=%s", vs, size, len(out), hx(out)))
					}
					if tag != nil {
						want := append([]byte(nil), tag...)
						if wt == 2 {
							want = append(want, ref.Uvarint(nil, uint64(len(body)))...)
						}
						want = append(want, body...)
						if !bytes.Equal(out, want) {
							c.Violation(fmt.Sprintf("%sL2-framing:tag%d", pre, ti), fmt.Sprintf("Append(tag)=%s want %s", hx(out), hx(want)))
						}
					}
				}
				var back time.Time
				n, err := codec.Read(body, unsafe.Pointer(&back), codec.WireType())
				if err != nil || n != len(body) {
					c.Violation(pre+"L3-read-consumes", fmt.Sprintf("Read(%s) = (%d,%v)", hx(body), n, err))
				}
				c.Outcome("ok")
			})
		}
	}
}
