package ref

import "fmt"

func zclass(t *T, v V) string {
	switch t.K {
	case KBytes, KPtr, KSlice, KMap:
		if v.Nil {
			return "nil"
		}
		if t.K == KPtr {
			if t.Elem.K == KPtr && ptrChainNil(t.Elem, v.E[0]) {
				return "ptr2nilptr"
			}
			if Omit(t.Elem, v.E[0]) {
				return "ptr2omittable"
			}
			return "ptr"
		}
		if len(v.E) == 0 && v.S == "" {
			return "empty"
		}
		return "nz"
	case KNullInt, KNullBool, KNullFloat, KNullString, KNullTime:
		if v.Nil {
			return "null"
		}
		return "valid"
	case KFloat32:
		if uint32(v.U) == 0x80000000 {
			return "-0"
		}
	case KFloat64:
		if v.U == 1<<63 {
			return "-0"
		}
	}
	if Str(t, v) == Str(t, Zero(t)) {
		return "zero"
	}
	return "nz"
}

// Diff locates the first difference between want and got. path is abstract (no
// concrete values) and suitable for a violation signature; detail is concrete.
func Diff(t *T, want, got V) (path, detail string, differ bool) {
	if Str(t, want) == Str(t, got) {
		return "", "", false
	}
	p, w, g, lt := diff(t, want, got, "")
	return fmt.Sprintf("%s:%s want=%s got=%s", p, lt.K, zclass(lt, w), zclass(lt, g)),
		fmt.Sprintf("at %s (%s): want %s got %s", p, lt, Str(lt, w), Str(lt, g)), true
}

func diff(t *T, w, g V, path string) (string, V, V, *T) {
	switch t.K {
	case KPtr:
		if w.Nil || g.Nil {
			return path, w, g, t
		}
		return diff(t.Elem, w.E[0], g.E[0], path+"*")
	case KSlice:
		if w.Nil != g.Nil || len(w.E) != len(g.E) {
			return path + "[len]", w, g, t
		}
		for i := range w.E {
			if Str(t.Elem, w.E[i]) != Str(t.Elem, g.E[i]) {
				return diff(t.Elem, w.E[i], g.E[i], path+"[]")
			}
		}
	case KMap:
		if w.Nil != g.Nil || len(w.E) != len(g.E) {
			return path + "{len}", w, g, t
		}
		gm := map[string]V{}
		for i := 0; i+1 < len(g.E); i += 2 {
			gm[Str(t.Key, g.E[i])] = g.E[i+1]
		}
		for i := 0; i+1 < len(w.E); i += 2 {
			gv, ok := gm[Str(t.Key, w.E[i])]
			if !ok {
				return path + "{key}", w, g, t
			}
			if Str(t.Elem, gv) != Str(t.Elem, w.E[i+1]) {
				return diff(t.Elem, w.E[i+1], gv, path+"{val}")
			}
		}
	case KStruct:
		for i, f := range t.Fields {
			if Str(f.T, w.E[i]) != Str(f.T, g.E[i]) {
				return diff(f.T, w.E[i], g.E[i], path+"."+f.Name)
			}
		}
	}
	return path, w, g, t
}
