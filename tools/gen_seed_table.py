#!/usr/bin/env python3
"""Regenerates DESIGN.md section 11.6 from seeded/*/meta.json and tools/strengthenings.md."""
import json, glob, collections
p = "/verif/DESIGN.md"
s = open(p).read()
i = s.index("### 11.6 Seeded changes")
j = s.index("### 11.7 ") if "### 11.7 " in s else s.index("## 12. Layout and budget")
def key(d):
    n = d.split("/")[-1]
    return (int(n.split("-r")[1]) if "-r" in n else 1, n)
rows, missed, per_round = [], 0, collections.Counter()
dirs = sorted(glob.glob("/verif/seeded/C*"), key=key)
for d in dirs:
    m = json.load(open(d + "/meta.json"))
    res = str(m.get("check_result") or m.get("detected_by")).replace("\n", " ")
    if "MISSED" in res or "NOT caught" in res:
        missed += 1
        per_round[key(d)[0]] += 1
    rows.append(f"| {d.split('/')[-1]} | {m['breaks']} | {m['needs_to_manifest']} | {res} |".replace("\n", " "))
n = len(dirs)
rounds = max(key(d)[0] for d in dirs)
head = f"""### 11.6 Seeded changes: which check catches which, and what had to be strengthened

{n} changes (six rounds over all twenty properties, a seventh over ten), each written by a fresh sub-agent from the property text
alone plus a hint at an area (`tools/seed_prompts.py`, `tools/seed_hints_r*.json`; from round
2 on the authors were also told what the earlier changes for that property were, so as to
pick a different mechanism; round 4 steered them towards path-, order- and history-dependent
faults, round 5 towards files no earlier change had touched, round 6 towards
three-feature interactions, rare kinds and secondary boundaries, round 7 towards the second of
something, defaults, values the caller still holds and relations between two quantities). All {n} compile, pass the
pinned suite, and are detected by the quick tier of a check on every run:
`tools/mutation_audit.sh` (scratch worktrees only, nothing is applied to `/repo`, evidence of
the real tree is not touched; `vp run -- sh -c 'tools/mutation_audit.sh -j 2'` runs it from a
snapshot) reports `{n} detected, 0 not detected` (last full run: the final tree, all seven rounds). They are deterministic enumerations; the
exceptions are C07-r2, a pure data race without any value-level effect, which only the
free-running `-race` pass of C07 can see. "Missed at first" means the check as it stood when
the change arrived exited 0; the strengthening is described and is now part of the check.
C02-r3 is detected by C12's check (it breaks what C12 states, not what C02 states).

| seed | change | needs | result |
|---|---|---|---|
"""
tail = f"""

{missed} of the {n} were missed at first ({", ".join(str(per_round[r]) for r in sorted(per_round))} per round). All but one of
the misses were holes in an *alphabet* (a value shape, a destination shape, a call order, a
size, a history); the exception is C07-r3, which exposed an *oracle* hole (results rendered
with encoding/json, which silently fails on `map[struct]V`) and an engine limit (no
scheduling point inside a window without synchronisation). Each was closed by widening the
enumeration or the engine, never by special-casing the seeded input:

"""
s = s[:i] + head + "\n".join(rows) + tail + open("/verif/tools/strengthenings.md").read() + "\n" + s[j:]
open(p, "w").write(s)
print(n, "seeds,", missed, "missed at first", dict(per_round))
