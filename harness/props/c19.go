package props

import (
	"bytes"
	"fmt"
	"reflect"
	"sort"
	"strings"
	"unsafe"

	"github.com/philpearl/plenc"
	"github.com/unravelin/null"

	"verif/gen"
	"verif/mc"
	"verif/ref"
	"verif/sched"
)

func init() {
	register(&mc.Prop{
		ID: "C19",
		Rule: "(a) explicit-state BFS over decode histories on one instance: operation = decode Intern{A:s1,B:s2[,null.String]} from a caller buffer that is overwritten afterwards, s in {\"\",a,ab,b,\\x00\\xff,128 bytes}; states de-duplicated on the real intern tables' contents (read reflectively); " +
			"in every state: interned result == plain twin's result (into fresh variables and into long-lived re-used destinations), every string returned so far still equals its recorded copy, every table entry has key==value and no bytes inside any caller buffer, earlier table snapshots are unchanged (copy-on-write), Marshal bytes equal with and without the option; " +
			"(b) 2-3 goroutines decoding through shared tables under the scheduler, all interleavings / preemption bounded; (c) free-running -race pass. non-trivial = state with a non-empty table / schedule with a preemption",
		Assumptions: []string{"the intern table is located reflectively (an unsafe.Pointer field next to a mutex inside the field codec); if the layout changes the check stops with a machinery error, not an alarm"},
		Workers:     func(string) int { return 16 },
		Work:        c19Work,
		Aux:         raceAux("C19"),
		Sub:         map[string]func([]string) int{"racepass-C19": racePassSub(c19Scenarios)},
		Post: func(a *mc.Agg) []string {
			return needDims(a, "bfs-state", "table-size-sweep", "scenario:intern", "threads:2", "threads:3", "null-string")
		},
	})
}

var c19Alphabet = []string{"", "a", "ab", "b", "\x00\xff", strings.Repeat("q", 128)}

// readPriv returns an addressable view of an unexported field.
func readPriv(f reflect.Value) reflect.Value {
	return reflect.NewAt(f.Type(), unsafe.Pointer(f.UnsafeAddr())).Elem()
}

// internTables finds the intern tables reachable from the struct codec of t.
func internTables(p *plenc.Plenc, t reflect.Type) ([]map[string]string, error) {
	c, err := p.CodecForType(t)
	if err != nil {
		return nil, err
	}
	var out []map[string]string
	seen := map[uintptr]bool{}
	var walk func(v reflect.Value, depth int)
	walk = func(v reflect.Value, depth int) {
		if depth > 8 {
			return
		}
		switch v.Kind() {
		case reflect.Interface, reflect.Ptr:
			if v.IsNil() {
				return
			}
			if v.Kind() == reflect.Ptr {
				if seen[v.Pointer()] {
					return
				}
				seen[v.Pointer()] = true
			}
			walk(v.Elem(), depth+1)
		case reflect.Struct:
			hasMutex := false
			for i := 0; i < v.NumField(); i++ {
				if strings.Contains(v.Type().Field(i).Type.String(), "Mutex") {
					hasMutex = true
				}
			}
			for i := 0; i < v.NumField(); i++ {
				f := v.Field(i)
				if !f.CanAddr() {
					continue
				}
				f = readPriv(f)
				if f.Kind() == reflect.UnsafePointer && hasMutex {
					ptr := f.UnsafePointer()
					var m map[string]string
					*(*unsafe.Pointer)(unsafe.Pointer(&m)) = ptr
					out = append(out, m)
					continue
				}
				walk(f, depth+1)
			}
		case reflect.Slice:
			for i := 0; i < v.Len(); i++ {
				walk(v.Index(i), depth+1)
			}
		}
	}
	walk(reflect.ValueOf(c), 0)
	return out, nil
}

func tableKey(ts []map[string]string) string {
	var parts []string
	for _, t := range ts {
		var ks []string
		for k := range t {
			ks = append(ks, fmt.Sprintf("%q", k))
		}
		sort.Strings(ks)
		parts = append(parts, "{"+strings.Join(ks, ",")+"}")
	}
	return strings.Join(parts, "")
}

func inside(s string, buf []byte) bool {
	if len(s) == 0 || cap(buf) == 0 {
		return false
	}
	sp := uintptr(unsafe.Pointer(unsafe.StringData(s)))
	bp := uintptr(unsafe.Pointer(unsafe.SliceData(buf)))
	return sp < bp+uintptr(cap(buf)) && sp+uintptr(len(s)) > bp
}

type c19Op struct{ a, b, n int } // indexes into the alphabet; n: null.String variant (-1: plain Intern type)

// c19Replay runs a history on a fresh instance, checking the invariants after every step.
// It returns the table key of the final state.
func c19Replay(c *mc.Ctx, hist []c19Op) (key string, bad string, detail string) {
	p := NewPlenc(ref.Cfg{})
	tI, tN := reflect.TypeOf(gen.Intern{}), reflect.TypeOf(gen.NIntern{})
	type kept struct{ s, copy string }
	var returned []kept
	var bufs [][]byte
	var snaps []map[string]string
	var snapCopies []map[string]string
	// long-lived destinations decoded into at every step (merge-style re-use)
	var keepI gen.Intern
	var keepP gen.Plain
	var keepNI gen.NIntern
	var keepNP gen.NPlain
	fail := func(b, d string) (string, string, string) { return "", b, d }
	for step, op := range hist {
		var data, plain []byte
		var err error
		a, b := c19Alphabet[op.a], c19Alphabet[op.b]
		if op.n < 0 {
			src := gen.Intern{A: a, B: b, C: a + b}
			data, err = p.Marshal(nil, &src)
			plain, _ = p.Marshal(nil, &gen.Plain{A: a, B: b, C: a + b})
		} else {
			src := gen.NIntern{A: null.NewString(a, op.n == 1), B: b}
			data, err = p.Marshal(nil, &src)
			plain, _ = p.Marshal(nil, &gen.NPlain{A: null.NewString(a, op.n == 1), B: b})
		}
		c.Ops(4)
		if err != nil {
			return fail("marshal-error", err.Error())
		}
		if !bytes.Equal(data, plain) {
			return fail("encoding-changed-by-intern-option", fmt.Sprintf("step %d: %s vs %s", step, hx(data), hx(plain)))
		}
		// the caller's buffer: exact capacity, to be scribbled over afterwards
		buf := append(make([]byte, 0, len(data)), data...)
		bufs = append(bufs, buf)
		var gotA, gotB, wantA, wantB string
		if op.n < 0 {
			var out gen.Intern
			var tw gen.Plain
			if err := p.Unmarshal(buf, &out); err != nil {
				return fail("unmarshal-error", err.Error())
			}
			p.Unmarshal(buf, &tw)
			gotA, gotB, wantA, wantB = out.A, out.B, tw.A, tw.B
			if out.C != tw.C {
				return fail("plain-sibling-differs", fmt.Sprintf("%q vs %q", out.C, tw.C))
			}
		} else {
			var out gen.NIntern
			var tw gen.NPlain
			if err := p.Unmarshal(buf, &out); err != nil {
				return fail("unmarshal-error", err.Error())
			}
			p.Unmarshal(buf, &tw)
			if out.A.Valid != tw.A.Valid {
				return fail("null-validity-differs", fmt.Sprintf("step %d: interned valid=%v plain valid=%v", step, out.A.Valid, tw.A.Valid))
			}
			gotA, gotB, wantA, wantB = out.A.String, out.B, tw.A.String, tw.B
		}
		// the same bytes into the re-used destinations: interned and plain twins must stay equal
		if op.n < 0 {
			e1, e2 := p.Unmarshal(append([]byte(nil), data...), &keepI), p.Unmarshal(append([]byte(nil), data...), &keepP)
			if e1 != nil || e2 != nil || keepI.A != keepP.A || keepI.B != keepP.B || keepI.C != keepP.C {
				return fail("interned-differs-from-plain-in-reused-target", fmt.Sprintf("step %d: interned %+v plain %+v (%v %v)", step, keepI, keepP, e1, e2))
			}
		} else {
			e1, e2 := p.Unmarshal(append([]byte(nil), data...), &keepNI), p.Unmarshal(append([]byte(nil), data...), &keepNP)
			if e1 != nil || e2 != nil || keepNI.A != keepNP.A || keepNI.B != keepNP.B {
				return fail("interned-differs-from-plain-in-reused-target", fmt.Sprintf("step %d: interned %+v plain %+v (%v %v)", step, keepNI, keepNP, e1, e2))
			}
		}
		if gotA != wantA || gotB != wantB {
			return fail("interned-differs-from-plain", fmt.Sprintf("step %d: interned (%q,%q) plain (%q,%q)", step, gotA, gotB, wantA, wantB))
		}
		returned = append(returned, kept{gotA, strings.Clone(gotA)}, kept{gotB, strings.Clone(gotB)})
		for _, g := range []string{gotA, gotB} {
			for _, bb := range bufs {
				if inside(g, bb) {
					return fail("returned-string-aliases-caller-buffer", fmt.Sprintf("step %d: %q", step, g))
				}
			}
		}
		// scribble over the caller's buffer
		for i := range buf {
			buf[i] ^= 0xff
		}
		for _, k := range returned {
			if k.s != k.copy {
				return fail("returned-string-changed", fmt.Sprintf("step %d: now %q, was %q", step, k.s, k.copy))
			}
		}
		// tables
		var tabs []map[string]string
		for _, tt := range []reflect.Type{tI, tN} {
			ts, err := internTables(p, tt)
			if err != nil {
				return fail("codec-error", err.Error())
			}
			tabs = append(tabs, ts...)
		}
		if len(tabs) != 4 {
			c.MachineErr(fmt.Sprintf("C19: expected 4 intern tables (Intern.A, Intern.B, NIntern.A, NIntern.B), found %d - codec layout changed?", len(tabs)))
			return "", "", ""
		}
		for ti, tab := range tabs {
			for k, v := range tab {
				if k != v {
					return fail("table-key-differs-from-value", fmt.Sprintf("table %d: %q -> %q", ti, k, v))
				}
				for _, bb := range bufs {
					if inside(k, bb) || inside(v, bb) {
						return fail("table-entry-aliases-caller-buffer", fmt.Sprintf("table %d entry %q", ti, k))
					}
				}
			}
		}
		for i, s := range snaps {
			if len(s) != len(snapCopies[i]) {
				return fail("old-table-snapshot-mutated", fmt.Sprintf("snapshot %d grew from %d to %d entries (not copy-on-write)", i, len(snapCopies[i]), len(s)))
			}
			for k, v := range snapCopies[i] {
				if s[k] != v {
					return fail("old-table-snapshot-mutated", fmt.Sprintf("snapshot %d entry %q", i, k))
				}
			}
		}
		for _, tab := range tabs {
			cp := make(map[string]string, len(tab))
			for k, v := range tab {
				cp[strings.Clone(k)] = strings.Clone(v)
			}
			snaps, snapCopies = append(snaps, tab), append(snapCopies, cp)
		}
		key = tableKey(tabs)
	}
	return key, "", ""
}

func c19Scenarios(tier string) []scenario {
	var out []scenario
	iv := func(a, b string) cop {
		d := mustMarshal(&gen.Intern{A: a, B: b, C: a + b})
		return opUnmarshal(fmt.Sprintf("Intern{%q,%q}", a, b), d, func() any { return &gen.Intern{} })
	}
	nv := func(a string, valid bool, b string) cop {
		p := NewPlenc(ref.Cfg{})
		d, _ := p.Marshal(nil, &gen.NIntern{A: null.NewString(a, valid), B: b})
		return opUnmarshal(fmt.Sprintf("NIntern{%q/%v,%q}", a, valid, b), d, func() any { return &gen.NIntern{} })
	}
	probe := []cop{iv("x", "y"), iv("", "x"), iv("new", "x"), nv("x", true, "y"), nv("", true, ""), nv("", false, "z")}
	b3 := 2
	if tier == "thorough" {
		b3 = 3
	}
	pairs := [][2][]cop{
		{{iv("x", "y")}, {iv("x", "y")}},
		{{iv("x", "y")}, {iv("y", "x")}},
		{{iv("x", "")}, {iv("z", "x")}},
		{{iv("x", "y"), iv("x", "z")}, {iv("w", "y")}},
		{{iv("x", "x"), iv("y", "y")}, {iv("y", "y"), iv("x", "x")}},
		{{nv("x", true, "y")}, {nv("x", true, "y")}},
		{{nv("", true, "y")}, {nv("x", false, "y")}},
		{{nv("x", true, "a"), nv("y", true, "a")}, {nv("y", true, "b")}},
		{{iv("x", "y")}, {nv("x", true, "y")}},
	}
	for _, pr := range pairs {
		out = append(out, scenario{name: "intern: " + copNames(pr[0]) + " || " + copNames(pr[1]), family: "intern", threads: [][]cop{pr[0], pr[1]}, probe: probe, bound: -1})
	}
	out = append(out, scenario{name: "intern x3: same new string", family: "intern", threads: [][]cop{{iv("x", "y")}, {iv("x", "y")}, {iv("x", "y")}}, probe: probe, bound: b3},
		scenario{name: "intern x3: crossing", family: "intern", threads: [][]cop{{iv("x", "y")}, {iv("y", "x")}, {iv("x", "x")}}, probe: probe, bound: b3},
		scenario{name: "intern x3: null", family: "intern", threads: [][]cop{{nv("x", true, "y")}, {nv("y", true, "x")}, {nv("x", false, "x")}}, probe: probe, bound: b3})
	return out
}

func c19Work(c *mc.Ctx) {
	probe := sched.Run([]func(){func() { NewPlenc(ref.Cfg{}).CodecForType(reflect.TypeOf(gen.Intern{})) }}, nil, false)
	if len(probe.Points) < 3 {
		c.MachineErr("the sync/atomic overlay is not active in this build: no scheduling points were hit")
		return
	}
	scs := c19Scenarios(c.Tier)
	if c.Owns(0) {
		e3SelfTest(c) // the explorer validates its reduction and bounding before it is believed
	}
	for si, sc := range scs {
		if c.Owns(si + 1) {
			runScenario(c, "C19", sc)
		}
	}
	// (a0) the table-size dimension: every table size from 0 to N is visited on one instance
	// (the BFS below only reaches sizes up to its depth); at every size a new string, the
	// oldest, the newest and the empty string are decoded and compared with the plain twin.
	if c.Owns(len(scs) + 1) {
		c19SizeSweep(c)
	}
	if c.Owns(len(scs) + 2) {
		c19DeepHistory(c)
	}
	// (a) BFS over histories, de-duplicated on the tables' contents. The search is
	// sharded by the first operation of the history (each shard de-duplicates locally).
	depth, alpha := 4, []int{0, 1, 2, 4}
	if c.Tier == "thorough" {
		depth, alpha = 6, []int{0, 1, 2, 3, 4, 5}
	}
	var ops []c19Op
	for _, a := range alpha {
		for _, b := range alpha {
			ops = append(ops, c19Op{a, b, -1})
		}
	}
	for i, a := range alpha {
		ops = append(ops, c19Op{a, alpha[(i+1)%len(alpha)], 1}, c19Op{a, a, 0})
	}
	states, transitions, maxDepth := 0, 0, 0
	exhausted := true
	for fi, first := range ops {
		if !c.Owns(fi + len(scs) + 2) {
			continue
		}
		seen := map[string]bool{}
		frontier := [][]c19Op{nil}
		for len(frontier) > 0 {
			h := frontier[0]
			frontier = frontier[1:]
			if len(h) >= depth {
				continue
			}
			if c.Expired() {
				exhausted = false
				break
			}
			for _, op := range ops {
				if len(h) == 0 && op != first {
					continue
				}
				nh := append(append([]c19Op(nil), h...), op)
				if !c.Begin(fmt.Sprintf(`{"set":"bfs","history":%q}`, fmt.Sprint(nh))) {
					continue
				}
				transitions++
				if op.n >= 0 {
					c.Dim("null-string")
				}
				var key, bad, detail string
				if c.Guard("bfs|", func() { key, bad, detail = c19Replay(c, nh) }) {
					continue
				}
				if bad != "" {
					c.Violation("bfs|"+bad, fmt.Sprintf("history %v (a,b = indexes into %q; n: -1 plain Intern, 0 invalid / 1 valid null.String): %s", nh, c19Alphabet, detail))
					c.Outcome("violation")
					continue
				}
				c.Outcome("ok")
				if !seen[key] {
					seen[key] = true
					states++
					c.Dim("bfs-state")
					c.NonTrivialKey("state" + key)
					if len(nh) > maxDepth {
						maxDepth = len(nh)
					}
					frontier = append(frontier, nh)
					if states%200 == 1 {
						c.Sample(map[string]any{"history": fmt.Sprint(nh), "tables": key})
					}
				}
			}
		}
	}
	c.Count("states", int64(states))
	c.Count("bfs_states", int64(states))
	c.Count("bfs_transitions", int64(transitions))
	if !exhausted {
		c.Note("BFS frontier not exhausted before the deadline")
	}
}

// c19SizeSweep grows one field's table one distinct string at a time.
func c19SizeSweep(c *mc.Ctx) {
	n := 3000
	if c.Tier == "thorough" {
		n = 20000
	}
	if !c.Begin(fmt.Sprintf(`{"set":"table-size-sweep","sizes":%d}`, n)) {
		return
	}
	c.Dim("table-size-sweep")
	c.Guard("sweep|", func() {
		p := NewPlenc(ref.Cfg{})
		mk := func(i int) string {
			// distinct strings sharing long prefixes, of varying length
			return fmt.Sprintf("%s-%d", strings.Repeat("p", i%37), i)
		}
		var returned, copies []string
		decode := func(a, b string, valid bool) (gen.Intern, gen.NIntern, bool) {
			data := mustMarshal(&gen.Plain{A: a, B: b, C: "c"})
			var gi gen.Intern
			var gp gen.Plain
			buf := append([]byte(nil), data...)
			e1 := p.Unmarshal(buf, &gi)
			e2 := p.Unmarshal(data, &gp)
			for i := range buf {
				buf[i] = 0xEE
			}
			ndata := mustMarshal(&gen.NPlain{A: null.NewString(a, valid), B: b})
			var ni gen.NIntern
			var np gen.NPlain
			nbuf := append([]byte(nil), ndata...)
			e3 := p.Unmarshal(nbuf, &ni)
			e4 := p.Unmarshal(ndata, &np)
			for i := range nbuf {
				nbuf[i] = 0xEE
			}
			c.Ops(4)
			c.AddEvals(1)
			c.Count("states", 1)
			ok := e1 == nil && e2 == nil && e3 == nil && e4 == nil && gi.A == gp.A && gi.B == gp.B && gi.C == gp.C && ni.A == np.A && ni.B == np.B
			if !ok {
				c.Violation("sweep|interned-differs-from-plain", fmt.Sprintf("after %d distinct strings through the field: decoding A=%q B=%q gives interned {%q %q} / null {%v %q}, plain {%q %q} / null {%v %q}; errors %v %v %v %v",
					len(returned)/2, a, b, gi.A, gi.B, ni.A, ni.B, gp.A, gp.B, np.A, np.B, e1, e2, e3, e4))
			}
			returned = append(returned, gi.A, gi.B)
			copies = append(copies, strings.Clone(gi.A), strings.Clone(gi.B))
			return gi, ni, ok
		}
		// the string-length dimension (the caller's buffer is overwritten before the comparison, so a
		// result that is only a view of it differs from the plain twin)
		lengthSweep := func() bool {
			for _, l := range ref.SweepLengths(c.Tier, true) {
				if l > 70000 {
					continue
				}
				c.NonTrivialKey(fmt.Sprintf("len%d/%d", l, len(returned)))
				s := strings.Repeat("L", l) + fmt.Sprint(l)
				if _, _, ok := decode(s, s[:l], true); !ok {
					return false
				}
				if _, _, ok := decode(s, "", false); !ok { // repeated: now served from the table
					return false
				}
			}
			return true
		}
		if !lengthSweep() {
			return
		}
		defer func() {
			// and once more against the grown table
			lengthSweep()
		}()
		for i := 0; i < n; i++ {
			if c.Expired() {
				c.Note(fmt.Sprintf("table-size sweep stopped at size %d", i))
				break
			}
			if i%256 == 0 {
				c.Heartbeat()
			}
			c.NonTrivialKey(fmt.Sprintf("size%d", i))
			if _, _, ok := decode(mk(i), mk(i/2), true); !ok {
				return
			}
			if _, _, ok := decode(mk(0), "", i%2 == 0); !ok {
				return
			}
			if i%64 == 63 || i == n-1 {
				for k := range returned {
					if returned[k] != copies[k] {
						c.Violation("sweep|returned-string-changed-later", fmt.Sprintf("string %d returned earlier was %q and is now %q (table size %d)", k, copies[k], returned[k], i))
						return
					}
				}
			}
		}
		if tabs, err := internTables(p, reflect.TypeOf(gen.Intern{})); err == nil {
			mx := 0
			for _, t := range tabs {
				if len(t) > mx {
					mx = len(t)
				}
			}
			c.Max("max_table_size", int64(mx))
		}
	})
	c.Outcome("sweep-done")
}

// c19DeepHistory: ONE interned field of one instance sees more than 2^14 (thorough: 2^16) distinct
// values, then a tail of large new values (1 MiB in all, more than everything decoded before);
// every string ever returned is kept and compared with a private copy taken when it was returned -
// at every power of two of the table size and at the end - and every returned value is compared
// with what was encoded. (The library copies the table for each new value: the cost is quadratic,
// which is why this history has a field to itself and a worker to itself.)
func c19DeepHistory(c *mc.Ctx) {
	n := 1<<14 + 2
	if c.Tier == "thorough" {
		n = 1<<16 + 2
	}
	if !c.Begin(fmt.Sprintf(`{"set":"deep-history","distinct_values":%d}`, n)) {
		return
	}
	c.Dim("deep-history")
	type one struct {
		V string `plenc:"1,intern"`
	}
	type plain struct {
		V string `plenc:"1"`
	}
	c.Guard("deep|", func() {
		p := NewPlenc(ref.Cfg{})
		var returned, copies []string
		recheck := func(at int) bool {
			for k := range returned {
				if returned[k] != copies[k] {
					c.Violation("deep|returned-string-changed-later", fmt.Sprintf("string %d returned earlier was %q and is now %q (after %d distinct values through the field)", k, trunc(copies[k]), trunc(returned[k]), at))
					return false
				}
			}
			return true
		}
		decode := func(i int, s string) bool {
			data, err := p.Marshal(nil, &plain{V: s})
			var got one
			if err == nil {
				err = p.Unmarshal(data, &got)
			}
			for k := range data {
				data[k] = 0xEE
			}
			c.Ops(2)
			c.AddEvals(1)
			c.Count("states", 1)
			if err != nil || got.V != s {
				c.Violation("deep|interned-differs-from-encoded", fmt.Sprintf("value %d through the field: encoded %q, decoded %q (%v)", i, trunc(s), trunc(got.V), err))
				return false
			}
			returned = append(returned, got.V)
			copies = append(copies, strings.Clone(got.V))
			return true
		}
		done := 0
		for i := 0; i < n; i++ {
			if c.Expired() {
				c.Note(fmt.Sprintf("deep history stopped after %d distinct values", i))
				break
			}
			if i%256 == 0 {
				c.Heartbeat()
			}
			c.NonTrivialKey(fmt.Sprintf("deep%d", i))
			if !decode(i, fmt.Sprintf("v%07d", i)) {
				return
			}
			done = i + 1
			if i&(i-1) == 0 || i&(i+1) == 0 { // around every power of two
				if !recheck(i) {
					return
				}
				// an old value again: now served from the table
				if !decode(i, fmt.Sprintf("v%07d", i/2)) {
					return
				}
			}
		}
		// the tail: new values that together are larger than everything decoded so far
		for j := 0; j < 256 && !c.Expired(); j++ {
			c.NonTrivialKey(fmt.Sprintf("tail%d", j))
			if !decode(done+j, strings.Repeat(string(rune('A'+j%26)), 4096)+fmt.Sprint(j)) {
				return
			}
			if j%32 == 31 {
				c.Heartbeat()
				if !recheck(done + j) {
					return
				}
			}
		}
		if !recheck(done + 256) {
			return
		}
		// and the earliest, middle and latest values once more
		for _, i := range []int{0, 1, done / 2, done - 1} {
			if i >= 0 && i < done && !decode(i, fmt.Sprintf("v%07d", i)) {
				return
			}
		}
		c.Max("max_deep_history", int64(done))
	})
	c.Outcome("deep-done")
}

func trunc(s string) string {
	if len(s) > 40 {
		return s[:40] + fmt.Sprintf("...(%d bytes)", len(s))
	}
	return s
}
