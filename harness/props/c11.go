package props

import (
	"bytes"
	"encoding/json"
	"fmt"
	"reflect"
	"strings"
	"unsafe"

	"verif/mc"
	"verif/ref"
)

func init() {
	register(&mc.Prop{
		ID: "C11",
		Rule: "every (configuration x type-in-position x boundary value) of the universe (values at the reduced level): Unmarshal side - the input is snapshotted, decoded from a buffer with spare capacity, must be unchanged afterwards, no string / slice backing array reachable from the decoded value may intersect input[0:cap] (address ranges), " +
			"and after the input is overwritten and re-used for another Marshal the decoded value still equals its deep copy; then, on a fresh instance: decode v from buffer A, overwrite A with the encoding of X (same shape and lengths, shifted contents), decode a new distinct Y, decode X from another buffer - it must read X (no instance state may alias A); Marshal side - the value and buf[:len] are snapshotted and must be unchanged, and the appended region must not intersect memory reachable from the value. non-trivial = value containing at least one non-empty string or slice",
		Assumptions: []string{"address ranges are read with reflect/unsafe from the live values; map bucket storage is not inspected directly, its keys and values are (via iteration)"},
		Work: func(c *mc.Ctx) {
			if c.Owns(0) {
				c11JSONAny(c)
			}
			enumItems(c, withRecursive(ref.Universe(c.Tier)), c11Case)
		},
		Post: func(a *mc.Agg) []string {
			return needDims(a, "ranges-checked", "scribbled", "marshal-side", "instance-state-aliasing", "json-any")
		},
	})
}

type memRange struct {
	lo, hi uintptr
	what   string
}

// reach collects the address ranges of all string data and slice backing arrays
// reachable from rv.
func reach(rv reflect.Value, path string, out *[]memRange) {
	switch rv.Kind() {
	case reflect.String:
		if rv.Len() > 0 {
			s := rv.String()
			p := uintptr(unsafe.Pointer(unsafe.StringData(s)))
			*out = append(*out, memRange{p, p + uintptr(len(s)), path + ":string"})
		}
	case reflect.Slice:
		if rv.Cap() > 0 {
			p := rv.Pointer()
			*out = append(*out, memRange{p, p + uintptr(rv.Cap())*rv.Type().Elem().Size(), path + ":slice"})
		}
		if k := rv.Type().Elem().Kind(); k != reflect.Uint8 {
			for i := 0; i < rv.Len(); i++ {
				reach(rv.Index(i), path+"[]", out)
			}
		}
	case reflect.Ptr:
		if !rv.IsNil() {
			p := rv.Pointer()
			*out = append(*out, memRange{p, p + rv.Type().Elem().Size(), path + ":pointee"})
			reach(rv.Elem(), path+"*", out)
		}
	case reflect.Struct:
		for i := 0; i < rv.NumField(); i++ {
			if rv.Type().Field(i).IsExported() {
				reach(rv.Field(i), path+"."+rv.Type().Field(i).Name, out)
			}
		}
	case reflect.Map:
		it := rv.MapRange()
		for it.Next() {
			reach(it.Key(), path+"{key}", out)
			reach(it.Value(), path+"{val}", out)
		}
	}
}

func overlaps(rs []memRange, buf []byte) string {
	if cap(buf) == 0 {
		return ""
	}
	lo := uintptr(unsafe.Pointer(unsafe.SliceData(buf)))
	hi := lo + uintptr(cap(buf))
	for _, r := range rs {
		if r.lo < hi && r.hi > lo && r.hi > r.lo {
			return r.what
		}
	}
	return ""
}

func hasPayload(t *ref.T, v ref.V) bool {
	switch t.K {
	case ref.KString, ref.KBytes, ref.KNullString:
		return v.S != ""
	case ref.KPtr:
		return !v.Nil && hasPayload(t.Elem, v.E[0])
	case ref.KSlice:
		return len(v.E) > 0
	case ref.KMap:
		for i := 0; i+1 < len(v.E); i += 2 {
			if hasPayload(t.Key, v.E[i]) || hasPayload(t.Elem, v.E[i+1]) {
				return true
			}
		}
	case ref.KStruct:
		for i, f := range t.Fields {
			if hasPayload(f.T, v.E[i]) {
				return true
			}
		}
	}
	return false
}

func c11Case(c *mc.Ctx, cfg ref.Cfg, it ref.Item, v ref.V, vs string, undoc string) {
	if undoc != "" {
		return // undocumented corners are judged by C01/C08
	}
	pre := fmt.Sprintf("%s|%s|%s|", cfg, it.Pos, it.T)
	c.Guard(pre, func() {
		p := NewPlenc(cfg)
		t := it.T
		if hasPayload(t, v) {
			c.NonTrivial()
		}
		// ---- Marshal side
		rv := ref.ToReflect(t, v)
		before := ref.Str(t, ref.FromReflect(t, rv))
		buf := make([]byte, 3, 256)
		copy(buf, []byte{0xa1, 0xb2, 0xc3})
		for i := 3; i < 256; i++ {
			buf[:256][i] = 0x77
		}
		out, err := p.Marshal(buf, rv.Addr().Interface())
		c.Ops(3)
		if err != nil {
			return
		}
		c.Dim("marshal-side")
		if after := ref.Str(t, ref.FromReflect(t, rv)); after != before {
			c.Violation(pre+"marshal-modified-value", fmt.Sprintf("value was %s, after Marshal %s", before, after))
			return
		}
		if !bytes.Equal(out[:3], []byte{0xa1, 0xb2, 0xc3}) {
			c.Violation(pre+"marshal-modified-buffer-prefix", hx(out[:3]))
			return
		}
		var vr []memRange
		reach(rv, "", &vr)
		if w := overlaps(vr, out); w != "" {
			c.Violation(pre+"marshal-output-shares-memory-with-value", w)
			return
		}
		data := append([]byte(nil), out[3:]...)
		// other destination shapes: empty non-nil buffers too small for the value
		for _, dst := range [][]byte{make([]byte, 0), make([]byte, 0, 1), nil} {
			o2, err := p.Marshal(dst, rv.Addr().Interface())
			if err != nil {
				continue
			}
			if w := overlaps(vr, o2); w != "" {
				c.Violation(pre+"marshal-output-shares-memory-with-value:small-destination", fmt.Sprintf("destination len 0 cap %d: output shares %s", cap(dst), w))
				return
			}
			if !bytes.Equal(o2, data) && !t.Contains(func(x *ref.T) bool { return x.K == ref.KMap }) {
				c.Violation(pre+"marshal-output-depends-on-destination", fmt.Sprintf("%s vs %s", hx(o2), hx(data)))
				return
			}
			// writing into the output must not change the value
			for i := range o2 {
				o2[i] ^= 0xff
			}
			if after := ref.Str(t, ref.FromReflect(t, rv)); after != before {
				c.Violation(pre+"value-changed-through-marshal-output", fmt.Sprintf("value was %s, now %s", before, after))
				return
			}
		}
		// ---- Unmarshal side: decode from a buffer with spare capacity
		in := make([]byte, len(data), len(data)+64)
		copy(in, data)
		for i := len(data); i < cap(in); i++ {
			in[:cap(in)][i] = 0xee
		}
		dst := fresh(t)
		if err := p.Unmarshal(in, dst.Interface()); err != nil {
			return
		}
		if !bytes.Equal(in, data) {
			c.Violation(pre+"unmarshal-modified-input", fmt.Sprintf("input %s became %s", hx(data), hx(in)))
			return
		}
		var dr []memRange
		reach(dst.Elem(), "", &dr)
		c.Dim("ranges-checked")
		if w := overlaps(dr, in); w != "" {
			c.Violation(pre+"decoded-value-shares-memory-with-input"+w, fmt.Sprintf("%s of the decoded value lies inside the input buffer", w))
			return
		}
		decoded := ref.Str(t, ref.FromReflect(t, dst.Elem()))
		// scribble, then re-use the input buffer for another Marshal
		for i := range in[:cap(in)] {
			in[:cap(in)][i] ^= 0xff
		}
		other := ref.ToReflect(t, v)
		p.Marshal(in[:0], other.Addr().Interface())
		c.Dim("scribbled")
		if after := ref.Str(t, ref.FromReflect(t, dst.Elem())); after != decoded {
			c.Violation(pre+"decoded-value-changed-after-input-overwritten", fmt.Sprintf("decoded %s, after overwriting the input %s", decoded, after))
			return
		}
		// the alignment dimension: the same input at each of the 8 offsets of an aligned backing array
		// (a decoder that views the input in place can only do so where the payload happens to be
		// aligned for the element type), with no spare capacity this time
		if hasPayload(t, v) {
			c.Dim("alignment")
			for off := 0; off < 8; off++ {
				backing := make([]byte, off+len(data)+8)
				in2 := backing[off : off+len(data) : off+len(data)]
				copy(in2, data)
				d := fresh(t)
				if err := p.Unmarshal(in2, d.Interface()); err != nil {
					c.Violation(pre+"decode-depends-on-input-alignment", fmt.Sprintf("input at offset %d of its backing array: %v", off, err))
					return
				}
				var r2 []memRange
				reach(d.Elem(), "", &r2)
				if w := overlaps(r2, backing); w != "" {
					c.Violation(pre+"decoded-value-shares-memory-with-input"+w, fmt.Sprintf("input at offset %d of its backing array: %s of the decoded value lies inside it", off, w))
					return
				}
				for i := range backing {
					backing[i] ^= 0xff
				}
				if reflect.DeepEqual(d.Elem().Interface(), dst.Elem().Interface()) {
					continue // (fast path; NaNs and the like take the rendering below)
				}
				if s := ref.Str(t, ref.FromReflect(t, d.Elem())); s != decoded {
					c.Violation(pre+"decode-depends-on-input-alignment", fmt.Sprintf("input at offset %d of its backing array decodes to %s, at offset 0 to %s", off, s, decoded))
					return
				}
			}
		}
		// the same data decoded AGAIN into the value just decoded (every map key, pointer and slice it
		// would create already exists there), from another buffer that is then overwritten
		if hasPayload(t, v) {
			c.Dim("redecode-into-result")
			in3 := append(make([]byte, 0, len(data)), data...)
			dstR := fresh(t)
			if p.Unmarshal(data, dstR.Interface()) != nil {
				return
			}
			if err := p.Unmarshal(in3, dstR.Interface()); err == nil {
				var r3 []memRange
				reach(dstR.Elem(), "", &r3)
				if w := overlaps(r3, in3); w != "" {
					c.Violation(pre+"decoded-value-shares-memory-with-input"+w, fmt.Sprintf("after decoding the same data into the populated result: %s of it lies inside the second input buffer", w))
					return
				}
				after := ref.Str(t, ref.FromReflect(t, dstR.Elem()))
				for i := range in3 {
					in3[i] ^= 0xff
				}
				if now := ref.Str(t, ref.FromReflect(t, dstR.Elem())); now != after {
					c.Violation(pre+"decoded-value-changed-after-input-overwritten:redecode", fmt.Sprintf("decoded into the populated result %s, after overwriting that input %s", after, now))
					return
				}
			}
		}
		// a second decode through the same instance (interning, pools) after the overwrite
		dst2 := fresh(t)
		if err := p.Unmarshal(data, dst2.Interface()); err == nil {
			if s := ref.Str(t, ref.FromReflect(t, dst2.Elem())); s != decoded {
				c.Violation(pre+"second-decode-differs-after-input-overwritten", fmt.Sprintf("first %s second %s", decoded, s))
				return
			}
		}
		// aliasing through the instance's own state (interning tables, pools): a fresh instance
		// decodes v from a buffer, the caller re-uses that buffer for X (same shape and lengths,
		// other contents), a new distinct value Y is decoded, then X is decoded from elsewhere
		if hasPayload(t, v) {
			c.Dim("instance-state-aliasing")
			q := NewPlenc(cfg)
			x, y := ref.ShiftStrings(t, v, 1), ref.ShiftStrings(t, v, 2)
			encOf := func(val ref.V) []byte {
				b, _ := q.Marshal(nil, ref.ToReflect(t, val).Addr().Interface())
				return b
			}
			ex, ey := encOf(x), encOf(y)
			bufA := append([]byte(nil), data...)
			d1 := fresh(t)
			if q.Unmarshal(bufA, d1.Interface()) == nil && len(ex) == len(bufA) {
				copy(bufA, ex) // the caller re-uses its buffer
				q.Unmarshal(append([]byte(nil), ey...), fresh(t).Interface())
				d3 := fresh(t)
				if err := q.Unmarshal(append([]byte(nil), ex...), d3.Interface()); err == nil {
					want := ref.Expect(cfg, t, "", x, false)
					if path, detail, differ := ref.Diff(t, want, ref.FromReflect(t, d3.Elem())); differ && !ref.NestedAbsent(t, x) {
						c.Violation(pre+"later-decode-sees-reused-input-buffer:"+path, fmt.Sprintf("decode %s from A; overwrite A with the encoding of %s; decode %s; decode %s elsewhere: %s",
							vs, ref.Str(t, x), ref.Str(t, y), ref.Str(t, x), detail))
						return
					}
				}
				if s := ref.Str(t, ref.FromReflect(t, d1.Elem())); s != ref.Str(t, ref.FromReflect(t, dst.Elem())) {
					c.Violation(pre+"decoded-value-changed-after-input-reused", s)
					return
				}
			}
		}
		c.Outcome("ok")
		if c.WantSample() {
			c.Sample(map[string]string{"cfg": cfg.String(), "type": t.String(), "value": vs, "bytes": hx(data), "ranges_checked": fmt.Sprint(len(dr))})
		}
	})
}

// c11JSONAny: the JSON-any codecs (map[string]any / []any) hand back strings, json.Numbers and
// map keys; none of them may be a view of the caller's input, and Marshal must not touch the value.
func c11JSONAny(c *mc.Ctx) {
	leaves := append(c16Leaves(), "a longer string value", json.Number("123456789012345678901234567890"), strings.Repeat("L", 200), json.Number("0."+strings.Repeat("7", 150)))
	trees := c16Containers(leaves, 2)
	for _, l := range leaves {
		trees = append(trees, map[string]any{"outer key": []any{l, map[string]any{"inner key that is longer": l}}}, []any{map[string]any{"k": l}, l})
	}
	for ti, tree := range trees {
		if !c.Begin(fmt.Sprintf(`{"set":"json-any","tree":%q}`, c16Norm(tree))) {
			continue
		}
		c.AddEvals(1)
		c.Count("states", 1)
		c.Dim("json-any")
		c.NonTrivial()
		pre := "json-any|"
		c.Guard(pre, func() {
			p := c16Plenc()
			before := c16Norm(tree)
			var data []byte
			var err error
			var out any
			switch tv := tree.(type) {
			case map[string]any:
				data, err = p.Marshal(nil, &tv)
				m := map[string]any{}
				out = &m
			case []any:
				data, err = p.Marshal(nil, &tv)
				a := []any{}
				out = &a
			}
			if err != nil {
				c.Violation(pre+"marshal-error", err.Error())
				return
			}
			if c16Norm(tree) != before {
				c.Violation(pre+"marshal-modified-value", fmt.Sprintf("%s became %s", before, c16Norm(tree)))
				return
			}
			buf := make([]byte, len(data), len(data)+64)
			copy(buf, data)
			if err := p.Unmarshal(buf, out); err != nil {
				c.Violation(pre+"unmarshal-error", err.Error())
				return
			}
			if !bytes.Equal(buf, data) {
				c.Violation(pre+"unmarshal-modified-input", fmt.Sprintf("%s became %s", hx(data), hx(buf)))
				return
			}
			n1 := c16Norm(reflect.ValueOf(out).Elem().Interface())
			for i := range buf[:cap(buf)] {
				buf[:cap(buf)][i] = 0xEE
			}
			if n2 := c16Norm(reflect.ValueOf(out).Elem().Interface()); n1 != n2 {
				c.Violation(pre+"decoded-value-changes-when-input-is-overwritten", fmt.Sprintf("tree #%d: decoded %s, after overwriting the input buffer %s", ti, trunc200(n1), trunc200(n2)))
				return
			}
			c.Ops(3)
			c.Outcome("ok")
		})
	}
}
