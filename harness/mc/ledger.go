package mc

import (
	"encoding/json"
	"fmt"
	"os"
	"path/filepath"
	"regexp"
)

// LedgerEntry is one line of /verif/known_findings.json. status "known" entries
// turn matching violations into KNOWN-FINDING lines; "fixed" entries suppress
// nothing and only document a repaired defect.
type LedgerEntry struct {
	Property string `json:"property"`
	ID       string `json:"id"`
	Status   string `json:"status"` // known | fixed
	Match    string `json:"match"`  // regular expression over the violation signature
	What     string `json:"what"`
	Example  string `json:"example,omitempty"`
	Commit   string `json:"commit,omitempty"`
	re       *regexp.Regexp
}

type Ledger struct{ Entries []*LedgerEntry }

// LoadLedger reads the committed ledger; it is never written at run time.
func LoadLedger() (*Ledger, error) {
	l := &Ledger{}
	b, err := os.ReadFile(filepath.Join(VerifDir, "known_findings.json"))
	if err != nil {
		if os.IsNotExist(err) {
			return l, nil
		}
		return l, err
	}
	var f struct {
		Findings []*LedgerEntry `json:"findings"`
	}
	if err := json.Unmarshal(b, &f); err != nil {
		return l, err
	}
	for _, e := range f.Findings {
		if e.Status == "known" {
			re, err := regexp.Compile(e.Match)
			if err != nil {
				return l, fmt.Errorf("entry %s: %v", e.ID, err)
			}
			e.re = re
		}
		l.Entries = append(l.Entries, e)
	}
	return l, nil
}

// Match returns the known entry covering (property, sig), or nil.
func (l *Ledger) Match(prop, sig string) *LedgerEntry {
	for _, e := range l.Entries {
		if e.Status == "known" && e.Property == prop && e.re != nil && e.re.MatchString(sig) {
			return e
		}
	}
	return nil
}
