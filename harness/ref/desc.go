package ref

import (
	"fmt"
	"strings"
)

// D is the model of a plenccodec.Descriptor, restricted to the attributes C14 lists.
type D struct {
	Index    int
	Name     string
	Type     string // Int Uint FlatInt Float32 Float64 String Bool Time Struct Slice
	TypeName string
	Presence bool
	Logical  string // "", Timestamp, Map, MapEntry
	Elems    []D
}

// Descriptor is the descriptor the documentation prescribes for (t, opt).
func Descriptor(cfg Cfg, t *T, opt string) D {
	switch t.K {
	case KBool:
		return D{Type: "Bool"}
	case KNullBool:
		return D{Type: "Bool", Presence: true}
	case KInt, KInt8, KInt16, KInt32, KInt64:
		if opt == "flat" {
			return D{Type: "FlatInt"}
		}
		return D{Type: "Int"}
	case KNullInt:
		return D{Type: "Int", Presence: true}
	case KUint, KUint8, KUint16, KUint32, KUint64:
		return D{Type: "Uint"}
	case KFloat32:
		return D{Type: "Float32"}
	case KFloat64:
		return D{Type: "Float64"}
	case KNullFloat:
		return D{Type: "Float64", Presence: true}
	case KString:
		return D{Type: "String"}
	case KNullString:
		return D{Type: "String", Presence: true}
	case KBytes:
		if rawBytes(opt) {
			return D{Type: "String"}
		}
		return D{Type: "Slice", Elems: []D{{Type: "Uint"}}}
	case KTime:
		return D{Type: "Time", Logical: "Timestamp"}
	case KNullTime:
		return D{Type: "Time", Logical: "Timestamp", Presence: true}
	case KPtr:
		d := Descriptor(cfg, t.Elem, opt)
		d.Presence = true
		return d
	case KSlice:
		return D{Type: "Slice", Elems: []D{Descriptor(cfg, t.Elem, "")}}
	case KMap:
		k := Descriptor(cfg, t.Key, "")
		v := Descriptor(cfg, t.Elem, "")
		k.Index, k.Name = 1, "key"
		v.Index, v.Name = 2, "value"
		return D{Type: "Slice", Logical: "Map", Elems: []D{{Type: "Struct", Logical: "MapEntry", TypeName: "*", Elems: []D{k, v}}}}
	case KStruct:
		d := D{Type: "Struct", TypeName: t.GoName}
		for _, f := range t.Fields {
			if !f.Encoded() {
				continue
			}
			e := Descriptor(cfg, f.T, f.Opt)
			e.Index = f.Index
			e.Name = f.Name
			if j, _, _ := strings.Cut(f.JSON, ","); j != "" {
				e.Name = j
			}
			d.Elems = append(d.Elems, e)
		}
		return d
	}
	panic("Descriptor: bad kind")
}

// DiffD compares a model descriptor with an observed one (same shape type D);
// TypeName "*" in the model matches anything.
func DiffD(want, got D, path string) string {
	if want.Index != got.Index {
		return fmt.Sprintf("%s: Index want %d got %d", path, want.Index, got.Index)
	}
	if want.Name != got.Name {
		return fmt.Sprintf("%s: Name want %q got %q", path, want.Name, got.Name)
	}
	if want.Type != got.Type {
		return fmt.Sprintf("%s: Type want %s got %s", path, want.Type, got.Type)
	}
	if want.TypeName != "*" && want.TypeName != got.TypeName {
		return fmt.Sprintf("%s: TypeName want %q got %q", path, want.TypeName, got.TypeName)
	}
	if want.Presence != got.Presence {
		return fmt.Sprintf("%s: ExplicitPresence want %v got %v", path, want.Presence, got.Presence)
	}
	if want.Logical != got.Logical {
		return fmt.Sprintf("%s: LogicalType want %q got %q", path, want.Logical, got.Logical)
	}
	if len(want.Elems) != len(got.Elems) {
		return fmt.Sprintf("%s: %d elements, want %d", path, len(got.Elems), len(want.Elems))
	}
	for i := range want.Elems {
		if s := DiffD(want.Elems[i], got.Elems[i], fmt.Sprintf("%s/%d(%s)", path, i, want.Elems[i].Name)); s != "" {
			return s
		}
	}
	return ""
}
