// Package ref is the reference model of plenc's documented behaviour. It is
// pure reflect (no unsafe, no import of plenccodec/plenccore) and is written from
// README.md, the doc comments in plenccore/wire.go and plenccodec/codec.go and the
// golden files (DESIGN.md Appendix A) - not by transcribing plenc's code paths.
package ref

import (
	"fmt"
	"reflect"
	"strings"
	"sync"
	"time"

	"github.com/unravelin/null"
)

// Kind enumerates the type constructors of the bounded type grammar.
type Kind int

const (
	KBool Kind = iota
	KInt
	KInt8
	KInt16
	KInt32
	KInt64
	KUint
	KUint8
	KUint16
	KUint32
	KUint64
	KFloat32
	KFloat64
	KString
	KBytes
	KTime
	KNullInt
	KNullBool
	KNullFloat
	KNullString
	KNullTime
	KPtr
	KSlice
	KMap
	KStruct
	KRaw // a kind plenc does not support; Named selects the registered reflect.Type
)

var kindNames = [...]string{"bool", "int", "int8", "int16", "int32", "int64", "uint", "uint8", "uint16", "uint32", "uint64",
	"float32", "float64", "string", "[]byte", "time.Time", "null.Int", "null.Bool", "null.Float", "null.String", "null.Time",
	"*", "[]", "map", "struct", "raw"}

func (k Kind) String() string { return kindNames[k] }

// T is a type expression. Leaves carry only K. Named, when set, makes Reflect
// return a pre-registered real Go type (for what reflect cannot build: named,
// recursive, unexported-field types); the structure below it still describes it.
type T struct {
	K      Kind
	Elem   *T  // ptr target, slice element, map value
	Key    *T  // map key
	Fields []F // struct
	Named  string
	GoName string // Go type name reported by reflect ("" for run-time built types)

	once sync.Once
	rt   reflect.Type
	str  string
}

// F is one struct field of a type expression.
type F struct {
	Name  string
	Index int    // plenc index
	Opt   string // tag option after the comma ("", flat, intern, proto, ...)
	JSON  string // json tag value, "" for none
	Skip  bool   // tagged plenc:"-"
	Raw   string // when non-empty, the literal plenc tag value (malformed tag tests)
	NoTag bool   // no plenc tag at all
	T     *T
}

func Leaf(k Kind) *T { return &T{K: k} }
func Ptr(e *T) *T    { return &T{K: KPtr, Elem: e} }

// Slice builds []e. In Go []uint8 and []byte are the same type, so that case is the KBytes leaf.
func Slice(e *T) *T {
	if e.K == KUint8 && e.Named == "" {
		return Leaf(KBytes)
	}
	return &T{K: KSlice, Elem: e}
}
func Map(k, v *T) *T    { return &T{K: KMap, Key: k, Elem: v} }
func Struct(fs ...F) *T { return &T{K: KStruct, Fields: fs} }
func Fld(i int, t *T) F { return F{Name: fmt.Sprintf("F%d", i), Index: i, T: t} }
func FldO(i int, o string, t *T) F {
	return F{Name: fmt.Sprintf("F%d", i), Index: i, Opt: o, T: t}
}

// PlencTag returns the plenc tag value for the field.
func (f F) PlencTag() string {
	if f.Raw != "" {
		return f.Raw
	}
	if f.Skip {
		return "-"
	}
	s := fmt.Sprint(f.Index)
	if f.Opt != "" {
		s += "," + f.Opt
	}
	return s
}

// String is the canonical, Go-like rendering of the type expression.
func (t *T) String() string {
	if t.str != "" {
		return t.str
	}
	var s string
	if t.Named != "" && t.K == KStruct {
		t.str = t.Named
		return t.str
	}
	switch t.K {
	case KPtr:
		s = "*" + t.Elem.String()
		if t.Named != "" {
			s = t.Named + "(" + s + ")"
		}
	case KSlice:
		s = "[]" + t.Elem.String()
		if t.Named != "" {
			s = t.Named + "(" + s + ")"
		}
	case KMap:
		s = "map[" + t.Key.String() + "]" + t.Elem.String()
		if t.Named != "" {
			s = t.Named + "(" + s + ")"
		}
	case KStruct:
		var b strings.Builder
		if t.Named != "" {
			b.WriteString(t.Named)
		}
		b.WriteString("struct{")
		for i, f := range t.Fields {
			if i > 0 {
				b.WriteString("; ")
			}
			b.WriteString(f.Name + " " + f.T.String())
			if !f.NoTag {
				b.WriteString(" `" + f.PlencTag() + "`")
			}
			if f.JSON != "" {
				b.WriteString(" json:" + f.JSON)
			}
		}
		b.WriteString("}")
		s = b.String()
	default:
		s = t.K.String()
		if t.Named != "" {
			s = t.Named + "(" + s + ")"
		}
	}
	t.str = s
	return s
}

var named sync.Map // name -> reflect.Type

// RegisterNamed binds a name used in T.Named to a real Go type.
func RegisterNamed(name string, rt reflect.Type) { named.Store(name, rt) }

var leafTypes = map[Kind]reflect.Type{
	KBool: reflect.TypeOf(false), KInt: reflect.TypeOf(int(0)), KInt8: reflect.TypeOf(int8(0)), KInt16: reflect.TypeOf(int16(0)),
	KInt32: reflect.TypeOf(int32(0)), KInt64: reflect.TypeOf(int64(0)), KUint: reflect.TypeOf(uint(0)), KUint8: reflect.TypeOf(uint8(0)),
	KUint16: reflect.TypeOf(uint16(0)), KUint32: reflect.TypeOf(uint32(0)), KUint64: reflect.TypeOf(uint64(0)),
	KFloat32: reflect.TypeOf(float32(0)), KFloat64: reflect.TypeOf(float64(0)), KString: reflect.TypeOf(""),
	KBytes: reflect.TypeOf([]byte(nil)), KTime: reflect.TypeOf(time.Time{}),
	KNullInt: reflect.TypeOf(null.Int{}), KNullBool: reflect.TypeOf(null.Bool{}), KNullFloat: reflect.TypeOf(null.Float{}),
	KNullString: reflect.TypeOf(null.String{}), KNullTime: reflect.TypeOf(null.Time{}),
}

var typeCache sync.Map // canonical string -> reflect.Type

// Reflect builds (and caches) the real Go type for the expression.
func (t *T) Reflect() reflect.Type {
	t.once.Do(func() {
		if t.Named != "" {
			if rt, ok := named.Load(t.Named); ok {
				t.rt = rt.(reflect.Type)
				return
			}
			panic("ref: unregistered named type " + t.Named)
		}
		key := t.String()
		if rt, ok := typeCache.Load(key); ok {
			t.rt = rt.(reflect.Type)
			return
		}
		switch t.K {
		case KPtr:
			t.rt = reflect.PointerTo(t.Elem.Reflect())
		case KSlice:
			t.rt = reflect.SliceOf(t.Elem.Reflect())
		case KMap:
			t.rt = reflect.MapOf(t.Key.Reflect(), t.Elem.Reflect())
		case KStruct:
			sf := make([]reflect.StructField, len(t.Fields))
			for i, f := range t.Fields {
				tag := ""
				if !f.NoTag {
					tag = `plenc:"` + f.PlencTag() + `"`
				}
				if f.JSON != "" {
					if tag != "" {
						tag += " "
					}
					tag += `json:"` + f.JSON + `"`
				}
				sf[i] = reflect.StructField{Name: f.Name, Type: f.T.Reflect(), Tag: reflect.StructTag(tag)}
			}
			t.rt = reflect.StructOf(sf)
		default:
			t.rt = leafTypes[t.K]
		}
		typeCache.Store(key, t.rt)
	})
	return t.rt
}

// Comparable reports whether the type can be a map key in Go.
func (t *T) Comparable() bool {
	switch t.K {
	case KRaw:
		return t.Named != "func()" && t.Named != "[]any"
	case KBytes, KSlice, KMap:
		return false
	case KStruct:
		for _, f := range t.Fields {
			if !f.T.Comparable() {
				return false
			}
		}
		return true
	}
	return true
}

// Depth is the constructor depth (leaves are 0).
func (t *T) Depth() int {
	switch t.K {
	case KPtr, KSlice:
		return 1 + t.Elem.Depth()
	case KMap:
		d := t.Key.Depth()
		if e := t.Elem.Depth(); e > d {
			d = e
		}
		return 1 + d
	case KStruct:
		d := 0
		for _, f := range t.Fields {
			if e := f.T.Depth(); e > d {
				d = e
			}
		}
		return 1 + d
	}
	return 0
}

// Contains reports whether any node of the type satisfies pred.
func (t *T) Contains(pred func(*T) bool) bool { return t.contains(pred, map[*T]bool{}) }

func (t *T) contains(pred func(*T) bool, seen map[*T]bool) bool {
	if seen[t] {
		return false
	}
	if t.Named != "" {
		seen[t] = true
	}
	if pred(t) {
		return true
	}
	switch t.K {
	case KPtr, KSlice:
		return t.Elem.contains(pred, seen)
	case KMap:
		return t.Key.contains(pred, seen) || t.Elem.contains(pred, seen)
	case KStruct:
		for _, f := range t.Fields {
			if f.T.contains(pred, seen) {
				return true
			}
		}
	}
	return false
}
