#!/bin/sh
# Runs every quick check against each saved behaviour-preserving change (neutral/<name>/patch.diff)
# in a scratch worktree of /repo's HEAD: every check must exit 0 without a VIOLATION line.
# A check that alarms here raises a false alarm. Relocatable (works from a vp run snapshot).
# usage: tools/neutral_audit.sh [name ...]
V=$(cd "$(dirname "$0")/.." && pwd)
cd $V || exit 2
names=${*:-$(ls neutral)}
R=/tmp/naudit.$$
mkdir -p $R
bad=0; ok=0
for s in $names; do
	d=$V/neutral/$s; W=$R/w.$s; O=$R/o.$s
	[ -s $d/patch.diff ] || continue
	git -C /repo worktree add -q --detach $W HEAD 2>/dev/null || { echo "$s: cannot create worktree"; continue; }
	if ! git -C $W apply $d/patch.diff 2>/dev/null; then echo "$s: patch no longer applies (skipped)"; git -C /repo worktree remove --force $W; continue; fi
	mkdir -p $O
	alarms=""
	for id in C01 C02 C03 C04 C05 C06 C07 C08 C09 C10 C11 C12 C13 C14 C15 C16 C17 C18 C19 C20; do
		VERIF_REPO=$W VERIF_OUT=$O $V/bin/check $id quick > $O/$id.out 2>&1; rc=$?
		nv=$(grep -ac '^VIOLATION' $O/$id.out)
		if [ $rc -ne 0 ] || [ $nv -gt 0 ]; then
			alarms="$alarms $id(exit=$rc,violations=$nv)"
			grep -a '^VIOLATION\|^ERROR' $O/$id.out | head -3 | cut -c1-300 | sed "s/^/    $s $id: /"
		fi
	done
	if [ -n "$alarms" ]; then bad=$((bad+1)); echo "$s: ALARM:$alarms"; else ok=$((ok+1)); echo "$s: silent (all 20 checks exit 0)"; fi
	git -C /repo worktree remove --force $W 2>/dev/null
	rm -rf $O
done
git -C /repo worktree prune
rm -rf $R
echo "neutral audit: $ok silent, $bad with alarms"
[ $bad -eq 0 ]
