#!/usr/bin/env python3
"""Summarises a mutant sweep (tools/mutant_sweep.py) into /verif/mutants/: copies the raw phase
results, joins the silent mutants with the hand-made triage (mutants/triage.json: id -> [class, note])
and writes mutants/summary.md (the table DESIGN §11.8 quotes).
usage: mutant_report.py [results-dir, default /tmp/mutres]"""
import json, os, sys, re, shutil, collections

V = os.path.dirname(os.path.dirname(os.path.abspath(__file__)))
src = sys.argv[1] if len(sys.argv) > 1 else "/tmp/mutres"
out = os.path.join(V, "mutants")
os.makedirs(out, exist_ok=True)
for f in ("phase1.jsonl", "phase2.jsonl"):
    if os.path.abspath(src) != os.path.abspath(out) and os.path.exists(os.path.join(src, f)):
        shutil.copy(os.path.join(src, f), os.path.join(out, f))
p1 = [json.loads(l) for l in open(os.path.join(out, "phase1.jsonl"))]
p2 = {}
for l in open(os.path.join(out, "phase2.jsonl")):
    r = json.loads(l)
    p2[r["id"]] = r
triage = {int(k): v for k, v in json.load(open(os.path.join(out, "triage.json"))).items()} if os.path.exists(os.path.join(out, "triage.json")) else {}
srcs = {}


def line(m):
    s = srcs.setdefault(m["file"], open("/repo/" + m["file"]).read())
    ls = s.rfind("\n", 0, m["off"]) + 1
    le = s.find("\n", m["end"])
    return (s[ls:m["off"]] + "⟦" + m["old"] + "→" + m["new"] + "⟧" + s[m["end"]:le]).strip()


def auto(m):
    full = open("/repo/" + m["file"]).read().splitlines()[m["line"] - 1]
    if m["op"] in ("int+1", "int-1") and m["old"] == "0":
        if "reflect.TypeOf(" in full:
            return ["equivalent", "literal inside reflect.TypeOf(T(0)): only the type is used"]
        if re.search(r"return 0, (fmt\.Errorf|err\b|errors\.)", full):
            return ["equivalent", "count returned beside an error; every caller returns at once on err != nil"]
    return None


c1 = collections.Counter(m["result"] for m in p1)
surv = [m for m in p1 if m["result"] == "survived-suite"]
rows, cls = [], collections.Counter()
detected_by = collections.Counter()
for m in surv:
    r = p2.get(m["id"])
    t = triage.get(m["id"])
    if r and r["result"] == "detected" and not t:
        cls["detected"] += 1
        detected_by[r["by"]] += 1
        continue
    if not t:
        t = auto(m)
    if not t:
        t = ["untriaged" if r else "not run", ""]
    cls[t[0]] += 1
    if t[0].startswith("detected"):
        detected_by[t[0].split()[-1] if t[0].split()[-1].startswith("C") else "?"] += 1
    rows.append(f"| {m['id']} | {m['file']}:{m['line']} | `{line(m)[:110].replace('|', '¦')}` | {t[0]} | {t[1]} |")
with open(os.path.join(out, "summary.md"), "w") as f:
    f.write(f"# Mutant sweep\n\n{len(p1)} single-point mutants (harness/cmd/mutgen: every site of every operator): "
            f"{c1['nocompile']} do not compile, {c1['killed-by-suite']} are killed by the pinned suite, {c1['survived-suite']} pass it.\n\n"
            f"Of those {len(surv)}: " + ", ".join(f"{v} {k}" for k, v in cls.most_common()) + ".\n\n"
            f"Detected by: " + ", ".join(f"{k} {v}" for k, v in sorted(detected_by.items())) + ".\n\n"
            "| id | site | mutation | class | note |\n|---|---|---|---|---|\n" + "\n".join(rows) + "\n")
print(len(p1), dict(c1), dict(cls))
